package server

// Bounded stand-in (C04, "no text the parser failed to understand is deleted"): document formatting, as the server
// answers it, is applied to one-transaction documents with a posting line the parser does not read to its end (a tab
// before the amount, text after the amount, an unfinished cost or assertion). Every line keeps
// all its non-blank text, in order, and the number of lines stays. Which lines carry a syntax error is known to the server only
// (the formatter is handed the journal), so the relation is checked on Server.Format.

import (
	"context"
	"fmt"
	"strings"
	"testing"

	"go.lsp.dev/protocol"

	"github.com/juev/hledger-lsp/internal/lsputil"
)

func applyFormatEdits(content string, edits []protocol.TextEdit) string {
	// edits are non-overlapping: apply from the last to the first
	for i := 0; i < len(edits); i++ {
		for j := i + 1; j < len(edits); j++ {
			a, b := edits[i].Range.Start, edits[j].Range.Start
			if b.Line > a.Line || (b.Line == a.Line && b.Character > a.Character) {
				edits[i], edits[j] = edits[j], edits[i]
			}
		}
	}
	for _, e := range edits {
		content = lsputil.NewPositionMapper(content).ApplyChange(e.Range, e.NewText)
	}
	return content
}

// isSubsequence: every character of a occurs in b, in order (nothing of a was deleted; b may hold more, a closing
// bracket the formatter supplies)
func isSubsequence(a, b string) bool {
	i := 0
	for j := 0; i < len(a) && j < len(b); j++ {
		if a[i] == b[j] {
			i++
		}
	}
	return i == len(a)
}

func TestVerifBounded_FormatKeepsUnreadText(t *testing.T) {
	nonblank := func(s string) string {
		return strings.Map(func(r rune) rune {
			if r == ' ' || r == '\t' {
				return -1
			}
			return r
		}, s)
	}
	damaged := []string{"assets:cash\t5 USD", "assets:cash \t 5 USD", "a:c  1 X garbage", "a:d  1 X @ ", "a:d  1 X @ garbage", "a:e  = ", "a:e  = garbage", "a:f  1 X = 2 Y extra", "a:h  1,2,3 X", "a:i  1 X @@", "(a:j  1 X", "[a:k]  1 X trailing", "a:l  1 X @ 2 Y Z", "a:m  - X", "a:n  1 X  ; c", "* a:o  1 X $", "a:p  $", "a:r  1e99999 X", "a:s  1 X = = 2 X"}
	firsts := []string{"", "    assets:ok  1 USD\n"}
	lasts := []string{"", "    expenses:food\n", "    expenses:food  -5 USD  ; c\n"}
	cases := 0
	for _, d := range damaged {
		for _, f := range firsts {
			for _, l := range lasts {
				doc := "2024-01-01 x\n" + f + "    " + d + "\n" + l
				cases++
				srv := NewServer()
				uri := protocol.DocumentURI("file:///unread.journal")
				srv.documents.Store(uri, doc)
				edits, err := srv.Format(context.Background(), &protocol.DocumentFormattingParams{TextDocument: protocol.TextDocumentIdentifier{URI: uri}})
				if err != nil {
					fmt.Printf("BOUNDED-FAIL formatting fails on %q: %v\n", doc, err)
					return
				}
				f1 := applyFormatEdits(doc, edits)
				before, after := strings.Split(doc, "\n"), strings.Split(f1, "\n")
				if len(before) != len(after) {
					fmt.Printf("BOUNDED-FAIL formatting changes the number of lines: %q -> %q\n", doc, f1)
					return
				}
				for i := range before {
					if !isSubsequence(nonblank(before[i]), nonblank(after[i])) {
						fmt.Printf("BOUNDED-FAIL formatting deletes text of a line the parser did not read to its end: %q is rewritten to %q (document %q)\n", before[i], after[i], doc)
						return
					}
				}
			}
		}
	}
	fmt.Printf("BOUNDED-OK cases=%d\n", cases)
}
