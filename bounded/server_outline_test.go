package server

// Bounded stand-in (C08, outline symbols): DocumentSymbol builds one symbol per transaction, directive and include from
// the ranges of the syntax tree; that ranges of different entries never partially overlap is a statement about the
// parser's main loop over three separate lists, not under contract. Every document of up to 5 lines from 13 line shapes
// (transaction headers, postings, a posting the parser stops on, comments, blank lines, account / commodity / include /
// P directives, an indented sub-line, a non-ASCII header) is outlined with and without a final newline: every symbol's
// range starts before it ends and lies inside the document (line and UTF-16 column), the selection range lies inside
// the range, and two symbols are disjoint or nested.

import (
	"context"
	"fmt"
	"strings"
	"testing"
	"unicode/utf16"

	"go.lsp.dev/protocol"
)

func TestVerifBounded_OutlineSymbols(t *testing.T) {
	alphabet := []string{
		"2024-01-01 shop",
		"2024-01-02 * (7) café 😀 | note  ; c",
		"    assets:cash  1 USD",
		"    expenses:food",
		"    assets:cash\t5 USD",
		"    ; note",
		"; top comment  ",
		"",
		"account assets:cash  ; c",
		"commodity 1.000,00 EUR",
		"include other.journal",
		"P 2024-01-01 EUR 1.1 USD",
		"  format 1.000,00 EUR",
	}
	s := NewServer()
	uri := protocol.DocumentURI("file:///bounded-outline.journal")
	params := &protocol.DocumentSymbolParams{TextDocument: protocol.TextDocumentIdentifier{URI: uri}}
	le := func(a, b protocol.Position) bool {
		return a.Line < b.Line || (a.Line == b.Line && a.Character <= b.Character)
	}
	cases := 0
	var lines []string
	check := func(content string) bool {
		cases++
		s.documents.Store(uri, content)
		syms, err := s.DocumentSymbol(context.Background(), params)
		if err != nil {
			fmt.Printf("BOUNDED-FAIL %q: error %v\n", content, err)
			return false
		}
		docLines := strings.Split(content, "\n")
		inside := func(p protocol.Position) bool {
			return int(p.Line) < len(docLines) && int(p.Character) <= len(utf16.Encode([]rune(docLines[p.Line])))
		}
		var rs []protocol.DocumentSymbol
		for _, x := range syms {
			d, ok := x.(protocol.DocumentSymbol)
			if !ok {
				fmt.Printf("BOUNDED-FAIL %q: a symbol of type %T\n", content, x)
				return false
			}
			rs = append(rs, d)
		}
		for i := range rs {
			r := rs[i].Range
			if !le(r.Start, r.End) || !inside(r.Start) || !inside(r.End) {
				fmt.Printf("BOUNDED-FAIL %q: symbol %q has range %v, not a range inside the document\n", content, rs[i].Name, r)
				return false
			}
			if sr := rs[i].SelectionRange; !le(r.Start, sr.Start) || !le(sr.Start, sr.End) || !le(sr.End, r.End) {
				fmt.Printf("BOUNDED-FAIL %q: symbol %q has selection range %v outside its range %v\n", content, rs[i].Name, sr, r)
				return false
			}
			for k := i + 1; k < len(rs); k++ {
				a, b := rs[i].Range, rs[k].Range
				if le(a.End, b.Start) || le(b.End, a.Start) {
					continue
				}
				aInB := le(b.Start, a.Start) && le(a.End, b.End)
				bInA := le(a.Start, b.Start) && le(b.End, a.End)
				if !aInB && !bInA {
					fmt.Printf("BOUNDED-FAIL %q: symbols %q %v and %q %v partially overlap\n", content, rs[i].Name, a, rs[k].Name, b)
					return false
				}
			}
		}
		return true
	}
	var rec func(depth int) bool
	rec = func(depth int) bool {
		if len(lines) > 0 {
			doc := strings.Join(lines, "\n")
			if !check(doc) || !check(doc+"\n") {
				return false
			}
		}
		if depth == 0 {
			return true
		}
		for _, l := range alphabet {
			lines = append(lines, l)
			ok := rec(depth - 1)
			lines = lines[:len(lines)-1]
			if !ok {
				return false
			}
		}
		return true
	}
	if rec(5) {
		fmt.Printf("BOUNDED-OK %d documents\n", cases)
	}
}
