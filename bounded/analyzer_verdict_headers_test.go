package analyzer

// Bounded stand-in (C02, "for every transaction of an open document"): the balance verdict is computed per transaction
// of the syntax tree, so a transaction whose header the lexer does not read as a header has no verdict at all. Headers
// with free-text descriptions of the shapes people write (a capitalised word, an all-capitals word, a leading digit, a
// currency sign, a word with a colon, an '@', a code, a status, a secondary date, payee | note, a trailing comment)
// are put in front of one balanced and one unbalanced pair of postings: the unbalanced one must get exactly one
// UNBALANCED error, the balanced one none, and the transaction must be in the tree with its two postings.

import (
	"fmt"
	"testing"

	"github.com/juev/hledger-lsp/internal/parser"
)

func TestVerifBounded_VerdictForAnyHeader(t *testing.T) {
	descriptions := []string{"shop", "Grocery store", "IKEA", "ATM withdrawal", "USD exchange", "7eleven", "123 main st", "24h kiosk", "$5 lunch", "€ exchange", "café 😀", "a:b shop", "shop @ mall", "-5 off coupon", "+1 bonus", "rent = 700", "x \"quoted\" y", "[bracketed]", "2 for 1", "1.5x", "Shop | note", "IKEA | 2 chairs", "REWE | 24/7"}
	prefixes := []string{"2024-01-01 ", "2024-01-01 * ", "2024-01-01 ! (42) ", "2024-01-01=2024-01-03 ", "2024/01/01 (A1) "}
	suffixes := []string{"", "  ; comment", "  ; tag:value"}
	cases := 0
	for _, p := range prefixes {
		for _, d := range descriptions {
			for _, s := range suffixes {
				for _, unbalanced := range []bool{false, true} {
					second := "    expenses:food  -5 USD\n"
					if unbalanced {
						second = "    expenses:food  -4 USD\n"
					}
					doc := p + d + s + "\n    assets:cash  5 USD\n" + second
					cases++
					journal, errs := parser.Parse(doc)
					if len(journal.Transactions) != 1 || len(journal.Transactions[0].Postings) != 2 {
						fmt.Printf("BOUNDED-FAIL the transaction under header %q is not in the syntax tree with its two postings (parse errors: %v): it gets no balance verdict\n", p+d+s, errs)
						return
					}
					n := 0
					for _, dg := range New().Analyze(journal).Diagnostics {
						if dg.Code == "UNBALANCED" {
							n++
						}
					}
					if unbalanced && n != 1 || !unbalanced && n != 0 {
						fmt.Printf("BOUNDED-FAIL header %q, unbalanced=%v: %d UNBALANCED diagnostics\n", p+d+s, unbalanced, n)
						return
					}
				}
			}
		}
	}
	fmt.Printf("BOUNDED-OK cases=%d\n", cases)
}
