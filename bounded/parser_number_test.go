package parser

// Bounded stand-in (C02/C20, number notation): normalizeNumber is string plumbing outside the verifier's reach (its
// value semantics needs string-to-number reasoning). Every well-formed number notation built from an integer part of
// 1..6 digits (optionally grouped in threes by ',' or '.'), an optional decimal mark ('.' or ',', different from the
// group mark) with 0..4 decimals and an optional '-' must normalise to a string whose decimal value is the number
// that was written. The one notation that is ambiguous (a single mark followed by exactly three digits after a
// non-zero integer part, e.g. 1.000 / 1,000) is generated only in its grouped reading, which is the documented choice.
// Mantissas with an integer part of up to three digits are also written with an exponent (E3, e-2, E+1): the value
// must be the mantissa's value scaled by the power of ten.

import (
	"fmt"
	"math/big"
	"strings"
	"testing"

	"github.com/shopspring/decimal"
)

func bnGroup(digits string, mark string) string {
	if len(digits) <= 3 {
		return digits
	}
	var parts []string
	for len(digits) > 3 {
		parts = append([]string{digits[len(digits)-3:]}, parts...)
		digits = digits[:len(digits)-3]
	}
	parts = append([]string{digits}, parts...)
	return strings.Join(parts, mark)
}

func abs(x int) int {
	if x < 0 {
		return -x
	}
	return x
}

func TestVerifBounded_NumberNotation(t *testing.T) {
	var ints []string
	var gen func(p string, n int)
	gen = func(p string, n int) {
		if len(p) > 0 {
			ints = append(ints, p)
		}
		if n == 0 {
			return
		}
		for _, d := range []string{"0", "1", "5", "9"} {
			gen(p+d, n-1)
		}
	}
	gen("", 6)
	decs := []string{"", "0", "5", "05", "50", "125", "000", "0005", "2500"}
	cases := 0
	for _, in := range ints {
		for _, gm := range []string{"", ",", "."} {
			if gm != "" && len(in) <= 3 {
				continue
			}
			for _, dm := range []string{"", ".", ","} {
				if dm != "" && dm == gm {
					continue
				}
				for _, dec := range decs {
					if dm == "" && dec != "" {
						continue
					}
					if dm != "" && gm == "" && len(dec) == 3 && strings.Trim(in, "0") != "" {
						continue // ambiguous single mark + three digits: grouped reading only (generated with gm != "")
					}
					for _, sign := range []string{"", "-"} {
						written := sign + bnGroup(in, gm)
						if dm != "" {
							written += dm + dec
						}
						// special case: a grouped number with exactly one group mark and no decimal mark is the ambiguous
						// notation in its grouped reading (1,000 = 1000) unless the integer part before the mark is all zeros
						if gm != "" && dm == "" && strings.Count(written, gm) == 1 && strings.Trim(strings.SplitN(strings.TrimPrefix(written, "-"), gm, 2)[0], "0") == "" {
							continue // 0,500: read as a decimal by the documented rule; not a grouped number
						}
						want := new(big.Rat)
						exp := sign + in
						if dec != "" {
							exp += "." + dec
						}
						if _, ok := want.SetString(exp); !ok {
							continue
						}
						cases++
						norm := normalizeNumber(written)
						d, err := decimal.NewFromString(norm)
						if err != nil {
							fmt.Printf("BOUNDED-FAIL %q normalises to %q, which is not a number (%v); written value %s\n", written, norm, err, exp)
							return
						}
						if d.Rat().Cmp(want) != 0 {
							fmt.Printf("BOUNDED-FAIL %q normalises to %q = %s, the number written is %s\n", written, norm, d.String(), exp)
							return
						}
						// exponent notation: the exponent scales the mantissa, whatever the mantissa's notation
						if len(in) <= 3 {
							for _, ex := range []struct {
								s string
								k int
							}{{"E3", 3}, {"e-2", -2}, {"E+1", 1}} {
								cases++
								wantE := new(big.Rat).Mul(want, new(big.Rat).SetFrac(big.NewInt(1), big.NewInt(1)))
								p10 := new(big.Rat).SetInt(new(big.Int).Exp(big.NewInt(10), big.NewInt(int64(abs(ex.k))), nil))
								if ex.k >= 0 {
									wantE.Mul(wantE, p10)
								} else {
									wantE.Quo(wantE, p10)
								}
								normE := normalizeNumber(written + ex.s)
								dE, err := decimal.NewFromString(normE)
								if err != nil {
									fmt.Printf("BOUNDED-FAIL %q normalises to %q, which is not a number (%v)\n", written+ex.s, normE, err)
									return
								}
								if dE.Rat().Cmp(wantE) != 0 {
									fmt.Printf("BOUNDED-FAIL %q normalises to %q = %s, the number written is %s x 10^%d\n", written+ex.s, normE, dE.String(), exp, ex.k)
									return
								}
							}
						}
					}
				}
			}
		}
	}
	fmt.Printf("BOUNDED-OK cases=%d\n", cases)
}

// Bounded stand-in (C02/C20, signs): the sign of an amount travels through parseAmount (which puts it in front of the
// number text) into normalizeNumber (whose "integer part all zeros" test must look past it). For every magnitude of a
// small list, every sign ("", "-", "+") and every place a sign can be written (before the number, between a left-hand
// symbol and the number, before a left-hand symbol, in a cost) the parsed quantity must be the signed value written.
func TestVerifBounded_AmountSigns(t *testing.T) {
	mags := []struct{ text, value string }{{"0.125", "0.125"}, {"0,250", "0.250"}, {"0.5", "0.5"}, {"1.5", "1.5"}, {"12", "12"}, {"0.000", "0"}, {"0,5", "0.5"}, {"1,000.25", "1000.25"}}
	cases := 0
	for _, m := range mags {
		for _, sign := range []string{"", "-", "+"} {
			want, _ := decimal.NewFromString(m.value)
			if sign == "-" {
				want = want.Neg()
			}
			forms := []struct {
				line string
				cost bool
			}{
				{"    a:b  " + sign + m.text + " USD", false},
				{"    a:b  $" + sign + m.text, false},
				{"    a:b  " + sign + "$" + m.text, false},
				{"    a:b  1 AAPL @ " + sign + m.text + " USD", true},
			}
			for _, f := range forms {
				doc := "2024-01-01 x\n" + f.line + "\n    a:c\n"
				j, errs := Parse(doc)
				cases++
				if len(errs) != 0 || len(j.Transactions) != 1 || len(j.Transactions[0].Postings) < 1 {
					fmt.Printf("BOUNDED-FAIL %q does not parse cleanly: %v\n", f.line, errs)
					return
				}
				p := j.Transactions[0].Postings[0]
				got := decimal.Zero
				switch {
				case f.cost && p.Cost != nil:
					got = p.Cost.Amount.Quantity
				case !f.cost && p.Amount != nil:
					got = p.Amount.Quantity
				default:
					fmt.Printf("BOUNDED-FAIL %q: the amount is not recognised\n", f.line)
					return
				}
				if !got.Equal(want) {
					fmt.Printf("BOUNDED-FAIL %q is read as %s, the amount written is %s\n", f.line, got.String(), want.String())
					return
				}
			}
		}
	}
	fmt.Printf("BOUNDED-OK cases=%d\n", cases)
}
