package server

// Bounded stand-in (C09, attribution by URI): pathToURI goes through go.lsp.dev/uri and net/url, which the model treats
// as opaque. The locations of references and the keys of a rename's WorkspaceEdit are URIs built by pathToURI from file
// paths; a client matches them against the URIs of its documents, which are RFC 3986 file URIs. For a list of absolute
// paths with characters that need escaping the produced URI must be a well-formed file URI (only unreserved / reserved
// ASCII, '%' only as an escape), decode back to the path, and be a fixed point of the server's own uriToPath / pathToURI
// pair.

import (
	"fmt"
	"net/url"
	"strings"
	"testing"
)

func TestVerifBounded_PathToURI(t *testing.T) {
	dirs := []string{"/tmp/ledger", "/tmp/My Ledger 2024", "/home/user/учёт", "/tmp/a#b", "/tmp/100%", "/tmp/q?x", "/tmp/a+b", "/tmp/日本語", "/tmp/emoji😀", "/tmp/semi;colon", "/tmp/amp&and", "/tmp/eq=sign"}
	files := []string{"main.journal", "my file.journal", "учёт.journal", "a#1.journal", "50%.journal"}
	cases := 0
	for _, d := range dirs {
		for _, f := range files {
			p := d + "/" + f
			u := string(pathToURI(p))
			cases++
			if !strings.HasPrefix(u, "file://") {
				fmt.Printf("BOUNDED-FAIL path %q: URI %q is not a file URI\n", p, u)
				return
			}
			for i := 0; i < len(u); i++ {
				c := u[i]
				if c <= ' ' || c >= 0x7f || c == '#' || c == '?' || c == '"' || c == '<' || c == '>' || c == '\\' || c == '^' || c == '`' || c == '{' || c == '|' || c == '}' {
					fmt.Printf("BOUNDED-FAIL path %q: URI %q contains the unescaped character %q (a client's URI for the same file has it percent-encoded)\n", p, u, string(rune(c)))
					return
				}
				if c == '%' && (i+2 >= len(u) || !isHex(u[i+1]) || !isHex(u[i+2])) {
					fmt.Printf("BOUNDED-FAIL path %q: URI %q has a '%%' that is not an escape\n", p, u)
					return
				}
			}
			pu, err := url.Parse(u)
			if err != nil || pu.Path != p || pu.Fragment != "" || pu.RawQuery != "" {
				fmt.Printf("BOUNDED-FAIL path %q: URI %q does not decode back to the path (err=%v path=%q)\n", p, u, err, func() string {
					if pu != nil {
						return pu.Path
					}
					return ""
				}())
				return
			}
			if back := uriToPath(pathToURI(p)); back != p {
				fmt.Printf("BOUNDED-FAIL path %q: uriToPath(pathToURI(path)) = %q\n", p, back)
				return
			}
		}
	}
	fmt.Printf("BOUNDED-OK cases=%d\n", cases)
}

func isHex(c byte) bool {
	return c >= '0' && c <= '9' || c >= 'a' && c <= 'f' || c >= 'A' && c <= 'F'
}
