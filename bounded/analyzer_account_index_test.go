package analyzer

// Bounded stand-in (C16, candidate lists): the account index built over an include tree files every account under each
// of its proper prefixes ("expenses:" and "expenses:food:" for expenses:food:fruit). strings.Split / strings.Join are
// opaque in the model, so the index structure is checked on every assignment of 6 account names to the root file and
// two included files (3^6 placements x both file orders): every name is listed exactly once, and under every one of
// its prefixes - which is what a fragment with a colon is completed from.

import (
	"fmt"
	"strings"
	"testing"

	"github.com/juev/hledger-lsp/internal/include"
	"github.com/juev/hledger-lsp/internal/parser"
)

func TestVerifBounded_AccountIndexPrefixes(t *testing.T) {
	names := []string{"expenses:food:fruit", "expenses:food", "expenses:rent", "assets:cash", "assets:bank:checking", "equity:opening"}
	cases := 0
	for place := 0; place < 729; place++ {
		for _, order := range [][]string{{"/w/a.journal", "/w/b.journal"}, {"/w/b.journal", "/w/a.journal"}} {
			docs := []string{"", "", ""}
			p := place
			used := map[string]bool{}
			for _, n := range names {
				f := p % 3
				p /= 3
				docs[f] += "2024-01-01 x\n    " + n + "  1 USD\n    " + n + "\n"
				used[n] = true
			}
			root, _ := parser.Parse(docs[0])
			ja, _ := parser.Parse(docs[1])
			jb, _ := parser.Parse(docs[2])
			r := include.NewResolvedJournal(root)
			r.Files["/w/a.journal"], r.Files["/w/b.journal"] = ja, jb
			r.FileOrder = order
			idx := collectAccountsFromResolved(r)
			cases++
			count := map[string]int{}
			for _, n := range idx.All {
				count[n]++
			}
			for n := range used {
				if count[n] != 1 {
					fmt.Printf("BOUNDED-FAIL account %q is listed %d times in All (placement %d, order %v)\n", n, count[n], place, order)
					return
				}
				parts := strings.Split(n, ":")
				for i := 1; i < len(parts); i++ {
					prefix := strings.Join(parts[:i], ":") + ":"
					found := false
					for _, m := range idx.ByPrefix[prefix] {
						if m == n {
							found = true
						}
					}
					if !found {
						fmt.Printf("BOUNDED-FAIL account %q is not filed under its prefix %q (placement %d, order %v): a fragment starting with %q is not completed to it\n", n, prefix, place, order, prefix)
						return
					}
				}
			}
		}
	}
	fmt.Printf("BOUNDED-OK cases=%d\n", cases)
}
