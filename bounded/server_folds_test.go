package server

// Bounded stand-in (C08, fold regions): the directive and comment-block folds scan the raw lines of the document
// (strings.Split / TrimSpace / HasPrefix) without any relation to the syntax tree, and the strict separation of
// transaction folds is proved only up to "no two transactions share a line". Here every document made of up to 6 lines
// from an alphabet of 11 line shapes (transaction headers, postings, indented and top-level comments with and without
// trailing blanks, '#' comments, blank and whitespace-only lines, a directive and its sub-lines) is folded, with and
// without a final newline, and every pair of fold regions must be disjoint or nested, every region must start before it
// ends and lie inside the document.

import (
	"context"
	"fmt"
	"strings"
	"testing"

	"go.lsp.dev/protocol"
)

func TestVerifBounded_FoldRegions(t *testing.T) {
	alphabet := []string{
		"2024-01-01 shop",
		"2024-01-02 * (7) café | note",
		"    assets:cash  1 USD",
		"    expenses:food",
		"    ; posting note",
		"; top comment",
		"; top comment with blanks  ",
		"# hash comment",
		"",
		"   ",
		"account assets:cash",
	}
	s := NewServer()
	uri := protocol.DocumentURI("file:///bounded-folds.journal")
	params := &protocol.FoldingRangeParams{TextDocumentPositionParams: protocol.TextDocumentPositionParams{TextDocument: protocol.TextDocumentIdentifier{URI: uri}}}
	cases := 0
	var lines []string
	var rec func(depth int) bool
	check := func(content string) bool {
		cases++
		s.documents.Store(uri, content)
		rs, err := s.FoldingRanges(context.Background(), params)
		if err != nil {
			fmt.Printf("BOUNDED-FAIL %q: error %v\n", content, err)
			return false
		}
		nLines := uint32(strings.Count(content, "\n") + 1)
		for i := range rs {
			if rs[i].StartLine >= rs[i].EndLine || rs[i].EndLine >= nLines {
				fmt.Printf("BOUNDED-FAIL %q: fold %d..%d is not a region inside the %d lines of the document\n", content, rs[i].StartLine, rs[i].EndLine, nLines)
				return false
			}
			for k := i + 1; k < len(rs); k++ {
				a, b := rs[i], rs[k]
				if a.EndLine < b.StartLine || b.EndLine < a.StartLine {
					continue
				}
				aInB := b.StartLine <= a.StartLine && a.EndLine <= b.EndLine
				bInA := a.StartLine <= b.StartLine && b.EndLine <= a.EndLine
				if !aInB && !bInA {
					fmt.Printf("BOUNDED-FAIL %q: folds %d..%d and %d..%d partially overlap\n", content, a.StartLine, a.EndLine, b.StartLine, b.EndLine)
					return false
				}
			}
		}
		return true
	}
	rec = func(depth int) bool {
		if len(lines) > 0 {
			doc := strings.Join(lines, "\n")
			if !check(doc) || !check(doc+"\n") {
				return false
			}
		}
		if depth == 0 {
			return true
		}
		for _, l := range alphabet {
			lines = append(lines, l)
			ok := rec(depth - 1)
			lines = lines[:len(lines)-1]
			if !ok {
				return false
			}
		}
		return true
	}
	if rec(6) {
		fmt.Printf("BOUNDED-OK %d documents\n", cases)
	}
}
