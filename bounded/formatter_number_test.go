package formatter

// Bounded stand-in (C04, rendering): FormatNumber's sign handling, digit grouping and decimal-mark placement are string
// plumbing outside the verifier's reach (only the losslessness of the decimal rendering is an SMT obligation). For every
// quantity with up to 7 integer digits and up to 4 decimals, positive and negative, and every display format with a
// decimal mark, the written text read back (group marks removed, decimal mark -> '.') must be the same number.

import (
	"fmt"
	"strings"
	"testing"

	"github.com/shopspring/decimal"
)

func TestVerifBounded_FormatNumberRoundTrip(t *testing.T) {
	ints := []string{"0", "1", "9", "10", "99", "100", "999", "1000", "1001", "9999", "12345", "100000", "999999", "1000000", "1234567"}
	decs := []string{"", "0", "5", "05", "50", "125", "999", "0005", "1250"}
	formats := []string{"1,000.00", "1.000,00", "1 000.00", "1000.00", "1000,0", "1,000.0000", "1.000,000", "1,000."}
	cases := 0
	// the display format read from a commodity / D directive is the one that was written: decimal mark, group mark,
	// number of decimals (a trailing mark means zero decimals with a decimal mark), with the symbol on either side
	for _, w := range []struct {
		text  string
		mark  rune
		group string
		dec   int
		has   bool
	}{
		{"1,000.00", '.', ",", 2, true}, {"1.000,00", ',', ".", 2, true}, {"1 000.00", '.', " ", 2, true}, {"1000.00", '.', "", 2, true},
		{"1000,0", ',', "", 1, true}, {"1,000.0000", '.', ",", 4, true}, {"1.000,000", ',', ".", 3, true},
		{"1000.", '.', "", 0, true}, {"1,000.", '.', ",", 0, true}, {"1.000,", ',', ".", 0, true}, {"1000", '.', "", 0, false},
		{"$1,000.00", '.', ",", 2, true}, {"1.000,00 EUR", ',', ".", 2, true}, {"1000. JPY", '.', "", 0, true}, {"1 000,5 kr", ',', " ", 1, true},
	} {
		cases++
		nf := ParseNumberFormat(w.text)
		if nf.DecimalMark != w.mark || nf.ThousandsSep != w.group || nf.DecimalPlaces != w.dec || nf.HasDecimal != w.has {
			fmt.Printf("BOUNDED-FAIL display format %q is read as mark %q group %q decimals %d hasDecimal %v; written: mark %q group %q decimals %d hasDecimal %v\n", w.text, nf.DecimalMark, nf.ThousandsSep, nf.DecimalPlaces, nf.HasDecimal, w.mark, w.group, w.dec, w.has)
			return
		}
	}
	for _, f := range formats {
		nf := ParseNumberFormat(f)
		for _, in := range ints {
			for _, dc := range decs {
				for _, sign := range []string{"", "-"} {
					src := sign + in
					if dc != "" {
						src += "." + dc
					}
					q := decimal.RequireFromString(src)
					out := FormatNumber(q, nf)
					cases++
					back := out
					if nf.ThousandsSep != "" {
						back = strings.ReplaceAll(back, nf.ThousandsSep, "")
					}
					back = strings.ReplaceAll(back, string(nf.DecimalMark), ".")
					back = strings.TrimSuffix(back, ".")
					d, err := decimal.NewFromString(back)
					if err != nil || !d.Equal(q) {
						fmt.Printf("BOUNDED-FAIL quantity %s under display format %q is written %q, which reads back as %q (%v)\n", src, f, out, back, err)
						return
					}
				}
			}
		}
	}
	fmt.Printf("BOUNDED-OK cases=%d\n", cases)
}
