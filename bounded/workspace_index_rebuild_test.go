package workspace

// Bounded stand-in (C12, the parts of the index outside the contracts: tag values and their counts, derived lists, the
// transaction index): for two files whose contents are drawn from 7 small journals (payees shared between files, tags
// with a value, with several values and without a value, costs, an empty file) every history of up to 3 steps
// "set the content of a file" / "remove a file" is replayed on one index, and after every step the snapshot must equal
// the snapshot of a fresh index that is given the files' current contents once. Payee templates are left out (listed
// open finding: templates are not restored when files share a payee).

import (
	"fmt"
	"reflect"
	"sort"
	"testing"
)

func snapshotForCompare(idx *WorkspaceIndex) map[string]any {
	s := idx.Snapshot()
	sortedCopy := func(xs []string) []string { c := append([]string(nil), xs...); sort.Strings(c); return c }
	tv := map[string][]string{}
	for k, v := range s.TagValues {
		tv[k] = sortedCopy(v)
	}
	tx := map[string]int{}
	for k, v := range s.Transactions {
		tx[k] = len(v)
	}
	acc := []string(nil)
	if s.Accounts != nil {
		acc = sortedCopy(s.Accounts.All)
	}
	return map[string]any{
		"accounts": acc, "payees": sortedCopy(s.Payees), "commodities": sortedCopy(s.Commodities), "tags": sortedCopy(s.Tags),
		"tagValues": tv, "transactions": tx, "dates": sortedCopy(s.Dates),
		"accountCounts": s.AccountCounts, "payeeCounts": s.PayeeCounts, "commodityCounts": s.CommodityCounts, "tagCounts": s.TagCounts, "tagValueCounts": s.TagValueCounts,
	}
}

func TestVerifBounded_IndexEqualsRebuild(t *testing.T) {
	contents := []string{
		"",
		"2024-01-01 shop\n    expenses:food  10 USD  ; trip:rome\n    assets:cash\n",
		"2024-01-02 shop\n    expenses:food  5 USD  ; trip:oslo, reviewed:\n    assets:cash\n",
		"2024-01-03 cafe  ; reviewed:\n    expenses:coffee  3 EUR\n    assets:cash\n",
		"2024-01-01 shop\n    assets:broker  2 AAPL @ 150 USD  ; trip:rome\n    assets:cash\n",
		"2024-01-04 rent | flat\n    expenses:rent  900 EUR\n    assets:bank\n\n2024-01-04 shop\n    expenses:food  1 USD\n    assets:cash\n",
		"2024-01-05 cafe\n    expenses:coffee  3 EUR  ; trip:\n    assets:cash  ; trip:rome\n",
	}
	paths := []string{"/w/a.journal", "/w/b.journal"}
	type step struct{ file, content int } // content -1: remove the file
	var steps []step
	for f := range paths {
		for c := -1; c < len(contents); c++ {
			steps = append(steps, step{f, c})
		}
	}
	cases := 0
	var run func(history []step) bool
	run = func(history []step) bool {
		if len(history) > 0 {
			cases++
			idx := NewWorkspaceIndex()
			cur := map[int]int{}
			for _, s := range history {
				if s.content < 0 {
					idx.RemoveFile(paths[s.file])
					delete(cur, s.file)
				} else {
					fi, _, _ := BuildFileIndexFromContent(paths[s.file], contents[s.content])
					idx.SetFileIndex(paths[s.file], fi)
					cur[s.file] = s.content
				}
			}
			fresh := NewWorkspaceIndex()
			for f := range paths {
				if c, ok := cur[f]; ok {
					fi, _, _ := BuildFileIndexFromContent(paths[f], contents[c])
					fresh.SetFileIndex(paths[f], fi)
				}
			}
			got, want := snapshotForCompare(idx), snapshotForCompare(fresh)
			for k := range want {
				if !reflect.DeepEqual(got[k], want[k]) && !(reflect.ValueOf(got[k]).Len() == 0 && reflect.ValueOf(want[k]).Len() == 0) {
					fmt.Printf("BOUNDED-FAIL after the history %v (file, content; -1 = removed) the index differs from a rebuild in %s: %v, rebuilt %v\n", history, k, got[k], want[k])
					return false
				}
			}
		}
		if len(history) == 3 {
			return true
		}
		for _, s := range steps {
			if !run(append(append([]step(nil), history...), s)) {
				return false
			}
		}
		return true
	}
	if run(nil) {
		fmt.Printf("BOUNDED-OK cases=%d\n", cases)
	}
}
