package server

// Bounded stand-in (C08 / C09, locations on target across files): for an include tree of three files on disk in which
// every account and commodity is used in several files (the earliest use not in the first file), every location that
// the reference and definition searches return must point into the file it names, and the text at its range must be the
// symbol itself (for a definition that is a directive: a line that contains the symbol). The per-kind searches are under
// contract for counts and range validity; that URI and range belong together is checked here on the real files.

import (
	"fmt"
	"os"
	"path/filepath"
	"strings"
	"testing"

	"go.lsp.dev/protocol"

	"github.com/juev/hledger-lsp/internal/include"
)

func textAt(content string, r protocol.Range) (string, bool) {
	lines := strings.Split(content, "\n")
	if int(r.Start.Line) >= len(lines) || r.Start.Line != r.End.Line {
		if int(r.End.Line) >= len(lines)+1 {
			return "", false
		}
		if int(r.Start.Line) >= len(lines) {
			return "", false
		}
		return lines[r.Start.Line], true // a whole-directive range: judged by its first line
	}
	u := []rune(lines[r.Start.Line]) // the test files are BMP only: one rune = one UTF-16 unit
	if int(r.End.Character) > len(u) || r.Start.Character > r.End.Character {
		return "", false
	}
	return string(u[r.Start.Character:r.End.Character]), true
}

func TestVerifBounded_LocationsOnTarget(t *testing.T) {
	dir := t.TempDir()
	files := map[string]string{
		"main.journal": "include a.journal\ninclude z.journal\ncommodity EUR\n\n2024-03-01 späti\n    expenses:food  10 EUR\n    assets:cash\n",
		"a.journal":    "account assets:bank\n\n2024-02-01 café\n    expenses:food  5 EUR @ 1.1 USD\n    assets:bank  = 100 EUR\n\n\n\n2024-02-02 x\n    expenses:rent  700 EUR\n    assets:bank\n",
		"z.journal":    "2024-01-01 earliest\n    expenses:rent  1 USD\n    expenses:food  2 USD\n    assets:cash\n",
	}
	for n, c := range files {
		os.WriteFile(filepath.Join(dir, n), []byte(c), 0o644)
	}
	root := filepath.Join(dir, "main.journal")
	resolved, errs := include.NewLoader().Load(root)
	if resolved == nil || len(errs) != 0 {
		fmt.Println("BOUNDED-FAIL the test tree does not load:", errs)
		return
	}
	read := func(uri protocol.DocumentURI) (string, bool) {
		p := uriToPath(uri)
		c, ok := files[filepath.Base(p)]
		return c, ok && filepath.Dir(p) == dir
	}
	cases := 0
	check := func(what, sym string, loc protocol.Location, wholeLine bool) bool {
		cases++
		c, ok := read(loc.URI)
		if !ok {
			fmt.Printf("BOUNDED-FAIL %s of %q: location in %q, which is not a file of the tree\n", what, sym, loc.URI)
			return false
		}
		txt, ok := textAt(c, loc.Range)
		if !ok || (wholeLine && !strings.Contains(txt, sym)) || (!wholeLine && txt != sym) {
			fmt.Printf("BOUNDED-FAIL %s of %q: %s %v covers %q\n", what, sym, filepath.Base(uriToPath(loc.URI)), loc.Range, txt)
			return false
		}
		return true
	}
	for _, acc := range []string{"expenses:food", "expenses:rent", "assets:cash", "assets:bank"} {
		for _, l := range findAccountReferences(acc, resolved, root, resolved.Primary, true) {
			if !check("reference", acc, l, false) {
				return
			}
		}
		if d := findAccountDefinitionResolved(acc, resolved, root, resolved.Primary); d != nil {
			if !check("definition", acc, *d, d.Range.Start.Line != d.Range.End.Line || acc == "assets:bank") {
				return
			}
		} else {
			fmt.Printf("BOUNDED-FAIL no definition location for %q\n", acc)
			return
		}
	}
	for _, com := range []string{"EUR", "USD"} {
		for _, l := range findCommodityReferences(com, resolved, root, resolved.Primary, true) {
			if !check("reference", com, l, false) {
				return
			}
		}
		if d := findCommodityDefinitionResolved(com, resolved, root, resolved.Primary); d != nil {
			if !check("definition", com, *d, com == "EUR") {
				return
			}
		}
	}
	for _, payee := range []string{"späti", "café", "earliest"} {
		for _, l := range findPayeeReferences(payee, resolved, root, resolved.Primary) {
			if !check("reference", payee, l, false) {
				return
			}
		}
	}
	fmt.Printf("BOUNDED-OK cases=%d\n", cases)
}
