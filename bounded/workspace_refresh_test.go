package workspace

// Bounded stand-in (C12, membership): refreshIncludeTreeLocked / computeReachableLocked are outside the verifier's
// reach (breadth-first search over a queue; file-system fixpoint). For every include graph on main + 3 files without
// diamonds or cycles, and every single update that replaces the include list of main or of one included file by another
// such list, the set of member files of the incrementally updated workspace must equal the set of a fresh workspace
// initialised on the resulting files.

import (
	"fmt"
	"os"
	"path/filepath"
	"sort"
	"strings"
	"testing"

	"github.com/juev/hledger-lsp/internal/include"
)

func bwContent(name string, incs []string) string {
	var b strings.Builder
	for _, i := range incs {
		b.WriteString("include " + i + ".journal\n")
	}
	b.WriteString("2024-01-01 payee-" + name + "\n    expenses:" + name + "  1 USD\n    assets:cash\n")
	return b.String()
}

func bwMembers(w *Workspace) string {
	var ks []string
	for k := range w.index.fileIndexes {
		ks = append(ks, filepath.Base(k))
	}
	sort.Strings(ks)
	return strings.Join(ks, ",")
}

// acyclic, no file reached along two paths, no self include
func bwSimple(g map[string][]string) bool {
	seen := map[string]int{}
	var walk func(n string, stack map[string]bool) bool
	walk = func(n string, stack map[string]bool) bool {
		if stack[n] {
			return false
		}
		seen[n]++
		if seen[n] > 1 {
			return false
		}
		stack[n] = true
		for _, m := range g[n] {
			if !walk(m, stack) {
				return false
			}
		}
		delete(stack, n)
		return true
	}
	return walk("main", map[string]bool{})
}

func TestVerifBounded_RefreshMembership(t *testing.T) {
	bwEnumerate(t, "members", bwMembers)
}

// bwResolved: the paths of the resolved journal, by both of its representations (map keys and include order); the
// reference search, rename and the list builders walk one or the other.
func bwResolved(w *Workspace) string {
	if w.resolved == nil {
		return "<nil>"
	}
	var ks, os []string
	for k := range w.resolved.Files {
		ks = append(ks, filepath.Base(k))
	}
	for _, k := range w.resolved.FileOrder {
		os = append(os, filepath.Base(k))
	}
	sort.Strings(ks)
	sort.Strings(os)
	return "Files{" + strings.Join(ks, ",") + "} FileOrder{" + strings.Join(os, ",") + "}"
}

// C09 / C12: after an include change the resolved journal holds exactly the files of the new include tree, in both
// representations (a detached file that stays in Files is still searched by references and rename).
func TestVerifBounded_RefreshResolved(t *testing.T) {
	bwEnumerate(t, "resolved journal", bwResolved)
}

func bwEnumerate(t *testing.T, what string, view func(*Workspace) string) {
	names := []string{"main", "a", "b", "c"}
	others := []string{"a", "b", "c"}
	var subsets [][]string
	for m := 0; m < 8; m++ {
		var s []string
		for i, o := range others {
			if m&(1<<i) != 0 {
				s = append(s, o)
			}
		}
		subsets = append(subsets, s)
	}
	cases := 0
	for gi := 0; gi < 8*8*8*8; gi++ {
		g := map[string][]string{}
		x := gi
		ok := true
		for _, n := range names {
			sub := subsets[x%8]
			x /= 8
			for _, s := range sub {
				if s == n {
					ok = false
				}
			}
			g[n] = sub
		}
		if !ok || !bwSimple(g) {
			continue
		}
		for _, victim := range []string{"main", "a"} {
			for _, newIncs := range subsets {
				g2 := map[string][]string{}
				for k, v := range g {
					g2[k] = v
				}
				g2[victim] = newIncs
				self := false
				for _, s := range newIncs {
					if s == victim {
						self = true
					}
				}
				if self || !bwSimple(g2) {
					continue
				}
				dir := t.TempDir()
				for _, n := range names {
					os.WriteFile(filepath.Join(dir, n+".journal"), []byte(bwContent(n, g[n])), 0o644)
				}
				w := NewWorkspace(dir, include.NewLoader())
				if err := w.Initialize(); err != nil {
					continue
				}
				if len(w.LoadErrors()) > 0 {
					continue
				}
				newContent := bwContent(victim, newIncs)
				vp := filepath.Join(dir, victim+".journal")
				if w.index.FileIndex(vp) == nil && victim != "main" {
					continue // not a member: the server would not route the edit to the workspace
				}
				os.WriteFile(vp, []byte(newContent), 0o644)
				w.UpdateFile(vp, newContent)
				fresh := NewWorkspace(dir, include.NewLoader())
				if err := fresh.Initialize(); err != nil || len(fresh.LoadErrors()) > 0 {
					continue
				}
				cases++
				if got, want := view(w), view(fresh); got != want {
					fmt.Printf("BOUNDED-FAIL graph %v, %s's includes replaced by %v: %s after the update [%s], fresh workspace [%s]\n", g, victim, newIncs, what, got, want)
					return
				}
			}
		}
	}
	fmt.Printf("BOUNDED-OK cases=%d\n", cases)
}
