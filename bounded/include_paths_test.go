package include

// Bounded stand-in (C10/C11, path forms): ResolvePathSafe and expandGlob are filepath / glob plumbing outside the
// verifier's reach (paths are opaque strings in the model). For every spelling of the including file's path and of the
// include target below, an include must resolve to the file it names (relative to the including file's directory, or the
// absolute path cleaned, or below $HOME for "~/"; a name that merely starts with '~' is an ordinary relative name), and a
// glob must return exactly the matching files other than the including file, however that file's path is spelled.

import (
	"fmt"
	"os"
	"path/filepath"
	"sort"
	"strings"
	"testing"
)

func TestVerifBounded_IncludePathForms(t *testing.T) {
	dir := t.TempDir()
	home := filepath.Join(dir, "home")
	os.MkdirAll(filepath.Join(dir, "ledger", "sub"), 0o755)
	os.MkdirAll(home, 0o755)
	t.Setenv("HOME", home)
	for _, f := range []string{"ledger/main.journal", "ledger/a.journal", "ledger/b.journal", "ledger/~c.journal", "ledger/sub/d.journal", "home/h.journal"} {
		os.WriteFile(filepath.Join(dir, f), []byte("; "+f+"\n"), 0o644)
	}
	ledger := filepath.Join(dir, "ledger")
	baseSpellings := []string{
		filepath.Join(ledger, "main.journal"),
		ledger + "/./main.journal",
		ledger + "/sub/../main.journal",
		ledger + "//main.journal",
	}
	type tc struct{ inc, want string }
	targets := []tc{
		{"a.journal", filepath.Join(ledger, "a.journal")},
		{"./a.journal", filepath.Join(ledger, "a.journal")},
		{"sub/d.journal", filepath.Join(ledger, "sub", "d.journal")},
		{"sub/../b.journal", filepath.Join(ledger, "b.journal")},
		{"~c.journal", filepath.Join(ledger, "~c.journal")},
		{"~/h.journal", filepath.Join(home, "h.journal")},
		{filepath.Join(ledger, "a.journal"), filepath.Join(ledger, "a.journal")},
		{ledger + "/./sub/../a.journal", filepath.Join(ledger, "a.journal")},
	}
	cases := 0
	for _, base := range baseSpellings {
		for _, c := range targets {
			cases++
			got, err := ResolvePathSafe(base, c.inc)
			if err != nil || got != c.want {
				fmt.Printf("BOUNDED-FAIL include %q from %q resolves to %q (err %v), the file named is %q\n", c.inc, strings.TrimPrefix(base, dir), strings.TrimPrefix(got, dir), err, strings.TrimPrefix(c.want, dir))
				return
			}
		}
		for _, pat := range []string{"*.journal", "./*.journal", "**/*.journal", ledger + "/*.journal"} {
			cases++
			l := NewLoader()
			got, err := l.expandGlob(base, pat)
			if err != nil {
				fmt.Printf("BOUNDED-FAIL glob %q from %q: %v\n", pat, strings.TrimPrefix(base, dir), err)
				return
			}
			var names []string
			for _, g := range got {
				abs, _ := filepath.Abs(g)
				names = append(names, strings.TrimPrefix(filepath.Clean(abs), ledger+"/"))
			}
			sort.Strings(names)
			want := "a.journal,b.journal,~c.journal"
			if strings.Contains(pat, "**") {
				want = "a.journal,b.journal,sub/d.journal,~c.journal"
			}
			if strings.Join(names, ",") != want {
				fmt.Printf("BOUNDED-FAIL glob %q from %q gives [%s], the files matching other than the including file are [%s]\n", pat, strings.TrimPrefix(base, dir), strings.Join(names, ","), want)
				return
			}
		}
	}
	// through the loader: an include directive in glob form (the dispatch on IsGlobPattern) loads exactly the matching files
	for _, g := range []struct{ inc, want string }{
		{"*.journal", "a.journal,b.journal,~c.journal"},
		{"sub/?.journal", "sub/d.journal"},
		{"[ab].journal", "a.journal,b.journal"},
		{"<->/d.journal", "sub/d.journal"},
		{"<->/*.journal", "a.journal,b.journal,sub/d.journal,~c.journal"},
		{"<->/sub/<->/d.journal", "sub/d.journal"},
		{"a.journal", "a.journal"},
	} {
		cases++
		base := filepath.Join(ledger, "main.journal")
		res, errs := NewLoader().LoadFromContent(base, "include "+g.inc+"\n")
		var names []string
		if res != nil {
			for _, f := range res.FileOrder {
				abs, _ := filepath.Abs(f)
				names = append(names, strings.TrimPrefix(filepath.Clean(abs), ledger+"/"))
			}
		}
		sort.Strings(names)
		if len(errs) != 0 || strings.Join(names, ",") != g.want {
			fmt.Printf("BOUNDED-FAIL 'include %s' in main.journal loads [%s] with errors %v, the files it names are [%s]\n", g.inc, strings.Join(names, ","), errs, g.want)
			return
		}
	}
	fmt.Printf("BOUNDED-OK cases=%d\n", cases)
}
