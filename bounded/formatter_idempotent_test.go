package formatter

// Bounded stand-ins (C04, C05): "formatting never changes what the journal says" and "formatting formatted text changes
// nothing" are relations between two parses, outside the per-function contracts. Here every journal of one transaction
// built from 13 first postings x 6 second postings x 5 comment spellings x 3 header forms is formatted twice: the second
// pass must change nothing, and the formatted text must parse to the same postings (account, quantity, commodity, cost,
// balance assertion, comment text up to surrounding blanks) as the original.

import (
	"fmt"
	"strings"
	"testing"

	"github.com/juev/hledger-lsp/internal/ast"
	"github.com/juev/hledger-lsp/internal/parser"
)

func postingSummary(p *ast.Posting) string {
	var b strings.Builder
	fmt.Fprintf(&b, "%s|%d|", p.Account.Name, p.Virtual)
	if p.Amount != nil {
		fmt.Fprintf(&b, "%s %q", p.Amount.Quantity.String(), p.Amount.Commodity.Symbol)
	}
	b.WriteString("|")
	if p.Cost != nil {
		fmt.Fprintf(&b, "%v %s %q", p.Cost.IsTotal, p.Cost.Amount.Quantity.String(), p.Cost.Amount.Commodity.Symbol)
	}
	b.WriteString("|")
	if p.BalanceAssertion != nil {
		fmt.Fprintf(&b, "%v %s %q", p.BalanceAssertion.IsStrict, p.BalanceAssertion.Amount.Quantity.String(), p.BalanceAssertion.Amount.Commodity.Symbol)
	}
	b.WriteString("|" + strings.TrimSpace(p.Comment))
	return b.String()
}

func journalSummary(content string) (string, int) {
	j, errs := parser.Parse(content)
	var b strings.Builder
	for i := range j.Transactions {
		tx := &j.Transactions[i]
		fmt.Fprintf(&b, "%04d-%02d-%02d %q %q\n", tx.Date.Year, tx.Date.Month, tx.Date.Day, tx.Payee, tx.Description)
		for k := range tx.Postings {
			b.WriteString("  " + postingSummary(&tx.Postings[k]) + "\n")
		}
	}
	return b.String(), len(errs)
}

// amountColumns: the distinct start columns of the posting amounts of a journal (one common column expected).
func amountColumns(content string) []int {
	j, _ := parser.Parse(content)
	seen := map[int]bool{}
	var cols []int
	for i := range j.Transactions {
		for k := range j.Transactions[i].Postings {
			if a := j.Transactions[i].Postings[k].Amount; a != nil && !seen[a.Range.Start.Column] {
				seen[a.Range.Start.Column] = true
				cols = append(cols, a.Range.Start.Column)
			}
		}
	}
	return cols
}

func formatOnce(content string) string {
	j, _ := parser.Parse(content)
	return applyEdits(content, FormatDocument(j, content))
}

func TestVerifBounded_FormatIdempotent(t *testing.T) {
	heads := []string{"2024-01-01 shop", "2024-01-01 * (7) café | note", "2024-01-01 ! x  ; header comment"}
	firsts := []string{"assets:cash  1 USD", "assets:cash  $1.50", "assets:cash  -2 EUR", "assets:broker  10 AAPL @ 150 USD", "assets:broker  10 AAPL @@ 1500 USD", "assets:cash  5 USD = 100 USD", "assets:cash  1 \"AAPL 2024\"", "(assets:virtual)  1 USD", "* assets:cleared   1,000.50 USD", "assets:cash  \"usd\" 5", "assets:cash  \"A1\" 5", "assets:cash  USD 5", "assets:cash  5 hours"}
	seconds := []string{"expenses:food", "expenses:food  -1 USD", "[expenses:budget]  -1 USD", "expenses:food  = 0 USD", "expenses:food  -1 \"AAPL 2024\" @ 2 USD", "expenses:a b  -1 USD"}
	comments := []string{"", "  ; note", " ;note", "  ;   spaced out", "  ; tag:value, other:x"}
	cases := 0
	for _, h := range heads {
		for _, f := range firsts {
			for _, s := range seconds {
				for _, c := range comments {
					doc := h + "\n    " + f + c + "\n    " + s + "\n"
					cases++
					want, nerr := journalSummary(doc)
					if nerr != 0 {
						continue // not a journal the parser accepts without errors: outside the statement
					}
					f1 := formatOnce(doc)
					if got, _ := journalSummary(f1); got != want {
						fmt.Printf("BOUNDED-FAIL formatting changes what the journal says: %q is rewritten to %q\nbefore:\n%safter:\n%s", doc, f1, want, got)
						return
					}
					if cols := amountColumns(f1); len(cols) > 1 {
						fmt.Printf("BOUNDED-FAIL the amounts of the formatted text do not share one column (%v): %q -> %q\n", cols, doc, f1)
						return
					}
					if f2 := formatOnce(f1); f2 != f1 {
						fmt.Printf("BOUNDED-FAIL formatting is not idempotent: %q -> %q -> %q\n", doc, f1, f2)
						return
					}
				}
			}
		}
	}
	fmt.Printf("BOUNDED-OK cases=%d\n", cases)
}

// A display format with a single mark followed by exactly three digits ("commodity 1,000 EUR") is read by the formatter
// as "three decimals, decimal comma" while the parser reads the number it then writes ("5,000") as five thousand.
func TestVerifBounded_FormatAmbiguousMark(t *testing.T) {
	cases := 0
	for _, dir := range []string{"commodity 1,000 EUR", "commodity 1.000 EUR", "D 1,000 EUR"} {
		for _, amt := range []string{"5 EUR", "12 EUR", "1.5 EUR"} {
			doc := dir + "\n2024-01-01 x\n    assets:a  " + amt + "\n    assets:b\n"
			cases++
			want, nerr := journalSummary(doc)
			if nerr != 0 {
				continue
			}
			f1 := formatOnce(doc)
			if got, _ := journalSummary(f1); got != want {
				fmt.Printf("BOUNDED-FAIL formatting changes an amount under the display format of %q: %q is rewritten to %q\n", dir, doc, f1)
				return
			}
		}
	}
	fmt.Printf("BOUNDED-OK cases=%d\n", cases)
}

// A whitespace-only line between two postings keeps the second posting in the transaction (the parser reads it as an
// empty posting line); the formatter empties the line, and the emptied line ends the transaction.
func TestVerifBounded_FormatWhitespaceOnlyLine(t *testing.T) {
	cases := 0
	for _, ws := range []string{"    ", "\t", "  \t "} {
		doc := "2024-01-01 x\n    assets:a  1 USD\n" + ws + "\n    assets:b\n"
		cases++
		want, nerr := journalSummary(doc)
		if nerr != 0 {
			continue
		}
		f1 := formatOnce(doc)
		if got, _ := journalSummary(f1); got != want {
			fmt.Printf("BOUNDED-FAIL formatting cuts a transaction at a whitespace-only line: %q is rewritten to %q, which parses to\n%sinstead of\n%s", doc, f1, got, want)
			return
		}
	}
	fmt.Printf("BOUNDED-OK cases=%d\n", cases)
}

// Display formats that rewrite the numbers (C04, C05): under a commodity / D format the written number differs from the one
// read ("12000" -> "12 000,00"), so every width the formatter measures before writing must be the width of the written
// text. Quantities must stay exact (also with fewer decimals in the format than in the amount), the amounts share one
// column, and the second pass changes nothing.
func TestVerifBounded_FormatIdempotentDisplayFormats(t *testing.T) {
	dirs := []string{"commodity 1 000,00 EUR\n\n", "commodity EUR\n  format 1 000,00 EUR\n\n", "D 1.000,00 EUR\n\n", "commodity 1,000.00 EUR\n\n", "commodity 1000, EUR\n\n", "commodity EUR 1.000,0\n\n"}
	firsts := []string{"assets:bank:checking  12000 EUR", "assets:bank:checking  12000 EUR = 12000 EUR", "assets:bank:checking  1234567,891 EUR", "assets:bank:checking  -0,5 EUR = -12000,25 EUR", "assets:broker  10 AAPL @ 1500 EUR", "assets:broker  10 AAPL @@ 15000,5 EUR = 10 AAPL"}
	seconds := []string{"assets:cash  50 EUR = 50 EUR", "assets:cash  -50,125 EUR", "assets:cash  5 EUR @ 1,1 USD = 5000 EUR", "assets:cash"}
	cases, accepted := 0, 0
	for _, d := range dirs {
		for _, f := range firsts {
			for _, s := range seconds {
				doc := d + "2024-01-15 opening balances\n    " + f + "\n    " + s + "\n    equity:opening\n"
				cases++
				want, nerr := journalSummary(doc)
				if nerr != 0 {
					continue
				}
				accepted++
				f1 := formatOnce(doc)
				if got, _ := journalSummary(f1); got != want {
					fmt.Printf("BOUNDED-FAIL formatting changes what the journal says: %q is rewritten to %q\nbefore:\n%safter:\n%s", doc, f1, want, got)
					return
				}
				if cols := amountColumns(f1); len(cols) > 1 {
					fmt.Printf("BOUNDED-FAIL the amounts of the formatted text do not share one column (%v): %q -> %q\n", cols, doc, f1)
					return
				}
				if f2 := formatOnce(f1); f2 != f1 {
					fmt.Printf("BOUNDED-FAIL formatting is not idempotent: %q -> %q -> %q\n", doc, f1, f2)
					return
				}
			}
		}
	}
	fmt.Printf("BOUNDED-OK cases=%d accepted=%d\n", cases, accepted)
}
