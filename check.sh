#!/bin/sh
# usage: ./check.sh <property id> [quick|thorough]
# Rebuilds every verification condition from /repo's current working tree (sources and contract files) and
# discharges them; writes evidence/<id>.json; exit 0 = held, exit 1 = VIOLATION line(s) printed.
cd "$(dirname "$0")"
id="$1"; tier="${2:-${VERIF_TIER:-quick}}"
[ -x bin/govc ] || ./setup.sh >/dev/null || exit 2
export GOFLAGS=-mod=mod GOPROXY=off
exec bin/govc check -property "$id" -tier "$tier" -repo "${VERIF_REPO:-/repo}" -verif "$(pwd)"
