#!/bin/sh
# usage: ./check.sh <property id> [quick|thorough]
# Rebuilds every verification condition from /repo's current working tree (sources and contract files) and
# discharges them; writes evidence/<id>.json; exit 0 = held, exit 1 = VIOLATION line(s) printed.
cd "$(dirname "$0")"
id="$1"; tier="${2:-${VERIF_TIER:-quick}}"
[ -x bin/govc ] || ./setup.sh >/dev/null || exit 2
export GOFLAGS=-mod=mod GOPROXY=off
bin/govc check -property "$id" -tier "$tier" -repo "${VERIF_REPO:-/repo}" -verif "$(pwd)"
rc=$?
if [ "$tier" = thorough ] && [ $rc -eq 0 ]; then
  # vacuity guard of the thorough tier: the must-fail corpus of this property (scratch copies outside /repo and /verif)
  python3 tools/selftest.py -j 4 -p "$id" > "replays/selftest_$id.log" 2>&1 || { echo "SELFTEST-FAILED: a must-fail mutant of $id was not reported at its obligation (see replays/selftest_$id.log)"; tail -3 "replays/selftest_$id.log"; exit 2; }
  tail -1 "replays/selftest_$id.log"
fi
exit $rc
