#!/usr/bin/env python3
"""tools/core.py <query.smt2> [maxlen]: unsat core over the quantifier-free top-level assertions (debugging vacuous proofs)"""
import re,subprocess,sys
s=open(sys.argv[1]).read()
ml=int(sys.argv[2]) if len(sys.argv)>2 else 400
out=[];n=0
for l in s.split('\n'):
    if l.startswith('(assert ') and l.endswith(')') and not l.startswith('(assert (forall') and not l.startswith('(assert (!'):
        n+=1; out.append('(assert (! %s :named a%d))'%(l[len('(assert '):-1],n))
    else: out.append(l)
t='(set-option :produce-unsat-cores true)\n'+'\n'.join(out).replace('(check-sat)','(check-sat)\n(get-unsat-core)')
open('/tmp/core.smt2','w').write(t)
r=subprocess.run(['z3-new','smt.auto_config=false','smt.mbqi=false','-T:60','/tmp/core.smt2'],capture_output=True,text=True).stdout
lines=[x for x in r.split('\n') if not x.startswith('WARNING')]
print(lines[0])
names=set(re.findall(r'a\d+',lines[1] if len(lines)>1 else ''))
for l in t.split('\n'):
    m=re.search(r':named (a\d+)\)\)$',l)
    if m and m.group(1) in names:
        print(m.group(1), l[:ml]); print()
