#!/usr/bin/env python3
"""Regenerates the seeded-changes table of DESIGN.md (between the SEEDED-TABLE markers) from seeded/*/meta.json."""
import json, os, re
ROOT = os.path.dirname(os.path.dirname(os.path.abspath(__file__)))
rows = []
retired = []
for sid in sorted(os.listdir(os.path.join(ROOT, "seeded"))):
    m = json.load(open(os.path.join(ROOT, "seeded", sid, "meta.json")))
    if m.get("retired"):
        retired.append((sid, m["retired"]))
        continue
    det = m.get("detection", {})
    caught = []
    for prop, d in det.items():
        for o in d.get("failed_obligations", [])[:2]:
            caught.append(f"{prop}: `{o}`")
    summ = re.sub(r"\s+", " ", m.get("summary", "")).strip()
    if len(summ) > 150: summ = summ[:147] + "…"
    needs = re.sub(r"\s+", " ", m.get("needs", "")).strip()
    if len(needs) > 110: needs = needs[:107] + "…"
    rows.append((sid, summ.replace("|", "\\|"), needs.replace("|", "\\|"), "yes" if m.get("detected") else "**no**", "; ".join(caught).replace("|", "\\|") or "—"))
n = len(rows); k = sum(1 for r in rows if r[3] == "yes")
out = [f"{k} of {n} seeded changes are reported by the check of their property (each confirmed first in a scratch copy: builds, the unedited suite passes with it, the sub-agent's demonstration fails with it and passes without it).", "",
       "| id | change | needs | caught | by (first failing obligations) |", "|---|---|---|---|---|"]
out += [f"| {a} | {b} | {c} | {d} | {e} |" for a, b, c, d, e in rows]
if retired:
    out += ["", f"{len(retired)} further seeded changes are retired (not counted above): a later repair of /repo replaced the code they changed.", ""]
    out += [f"* {sid}: {why}" for sid, why in retired]
txt = "\n".join(out)
p = os.path.join(ROOT, "DESIGN.md")
s = open(p).read()
a = s.index("<!-- SEEDED-TABLE-BEGIN -->") + len("<!-- SEEDED-TABLE-BEGIN -->")
b = s.index("<!-- SEEDED-TABLE-END -->")
open(p, "w").write(s[:a] + "\n" + txt + "\n" + s[b:])
print(k, "of", n)
