#!/usr/bin/env python3
"""Must-fail corpus: every mutant (a small property-breaking edit that still compiles) is applied to a scratch copy of
/repo outside /repo and /verif; the named obligation must fail there (and only then is the engine trusted).
usage: tools/selftest.py [-j N] [name-substring ...]      exit 0 = every mutant caught at its expected obligation"""
import json, os, subprocess, sys, shutil, tempfile, concurrent.futures as cf
ROOT = os.path.dirname(os.path.dirname(os.path.abspath(__file__)))
REPO = os.environ.get("VERIF_REPO", "/repo")
GOVC = os.path.join(ROOT, "bin", "govc")


def prep_verif(ver):
    """scratch /verif for a run against a scratch repo: the committed findings, witnesses and bounded stand-ins"""
    shutil.copy(os.path.join(ROOT, "known_findings.json"), ver)
    shutil.copytree(os.path.join(ROOT, "findings"), os.path.join(ver, "findings"))
    for extra in ("bounded.json", "undecided.json", "sweep_baseline.json"):
        if os.path.exists(os.path.join(ROOT, extra)):
            shutil.copy(os.path.join(ROOT, extra), ver)
    if os.path.isdir(os.path.join(ROOT, "bounded")):
        shutil.copytree(os.path.join(ROOT, "bounded"), os.path.join(ver, "bounded"))


def load():
    ents = []
    for line in open(os.path.join(ROOT, "selftest", "expect.tsv")):
        line = line.rstrip("\n")
        if not line or line.startswith("#"): continue
        patch, prop, expect = line.split("\t")[:3]
        ents.append((patch, prop, expect))
    return ents

def run_one(ent):
    patch, prop, expect = ent
    tmp = tempfile.mkdtemp(prefix="govc-selftest-")
    try:
        repo = os.path.join(tmp, "repo"); ver = os.path.join(tmp, "verif")
        shutil.copytree(REPO, repo, ignore=shutil.ignore_patterns(".git"))
        os.makedirs(ver)
        prep_verif(ver)
        p = subprocess.run(["patch", "-p1", "-s", "-d", repo, "-i", os.path.join(ROOT, patch)], capture_output=True, text=True)
        if p.returncode != 0:
            return (patch, prop, "PATCH-FAILED", p.stdout + p.stderr)
        b = subprocess.run(["go", "build", "./..."], cwd=repo, capture_output=True, text=True, env={**os.environ, "GOFLAGS": "-mod=mod", "GOPROXY": "off"})
        if b.returncode != 0:
            return (patch, prop, "DOES-NOT-COMPILE", b.stderr[-500:])
        r = subprocess.run([GOVC, "check", "-property", prop, "-repo", repo, "-verif", ver, "-v"], capture_output=True, text=True)
        failed = [l.strip() for l in r.stdout.splitlines() if l.strip().startswith("FAILED ")]
        viol = [l for l in r.stdout.splitlines() if l.startswith("VIOLATION")]
        known = set()
        for l in r.stdout.splitlines():
            if l.startswith("KNOWN-FINDING:"):
                known.add(l.split()[2].rstrip(":"))
        newfail = [f for f in failed if f.split()[1] not in known]
        hit = [f for f in newfail if expect in f]
        conf = [l for l in r.stdout.splitlines() if l.startswith("REPLAY: ")]
        if r.returncode == 1 and viol and hit:
            return (patch, prop, "CAUGHT", "; ".join(f.split()[1] for f in newfail) + (("\n      " + conf[0]) if conf else ""))
        if r.returncode == 1 and viol:
            return (patch, prop, "CAUGHT-ELSEWHERE", "; ".join(f.split()[1] for f in newfail))
        return (patch, prop, "MISSED", r.stdout[-600:] + r.stderr[-300:])
    finally:
        shutil.rmtree(tmp, ignore_errors=True)

def main():
    global REPO
    snap = tempfile.mkdtemp(prefix="govc-selftest-snap-")
    shutil.copytree(REPO, os.path.join(snap, "repo"), ignore=shutil.ignore_patterns(".git"))
    REPO = os.path.join(snap, "repo")
    global GOVC
    GOVC = os.path.join(snap, "govc")
    shutil.copy(os.path.join(ROOT, "bin", "govc"), GOVC)
    os.chmod(GOVC, 0o755)
    try:
        return main2()
    finally:
        shutil.rmtree(snap, ignore_errors=True)

def main2():
    args = sys.argv[1:]; j = 4; prop = None
    while args[:1] and args[0] in ("-j", "-p"):
        if args[0] == "-j": j = int(args[1])
        else: prop = args[1]
        args = args[2:]
    ents = [e for e in load() if (not args or any(a in e[0] for a in args)) and (prop is None or e[1] == prop)]
    bad = 0
    with cf.ThreadPoolExecutor(max_workers=j) as ex:
        for patch, prop, verdict, info in ex.map(run_one, ents):
            print(f"{verdict:17s} {prop} {patch}  {info if verdict != 'MISSED' else ''}")
            if verdict not in ("CAUGHT",):
                bad += 1
                if verdict == "MISSED": print("    " + info.replace("\n", "\n    "))
    print(f"selftest: {len(ents)} mutants, {len(ents)-bad} caught at the expected obligation, {bad} not")
    return 1 if bad else 0
if __name__ == "__main__":
    sys.exit(main())
