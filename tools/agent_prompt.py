#!/usr/bin/env python3
import json, sys
pid = sys.argv[1]; n = sys.argv[2] if len(sys.argv) > 2 else "2"
first = int(sys.argv[3]) if len(sys.argv) > 3 else 1
last = first + int(n) - 1
for line in open('/verif/properties.jsonl'):
    p = json.loads(line)
    if p['id'] == pid: break
wt = f"/tmp/wt/{pid}"
mech = "\n".join(f"  - {m['name']} ({m['where']})" for m in p['anchors'].get('mechanism', []))
print(f"""You are helping test a verification effort by producing realistic *property-breaking changes* (seeded defects) for a Go project.

The project is juev/hledger-lsp (a Go language server for hledger journal files). You have your own scratch git worktree of it at {wt} (detached HEAD). Work ONLY inside {wt}. Never read or write /repo or /verif.

Offline sandbox: prefix every go command with `GOFLAGS=-mod=mod GOPROXY=off` (e.g. `cd {wt} && GOFLAGS=-mod=mod GOPROXY=off go test -vet=off -count=1 ./...`). The full suite takes about 10 s. Nothing can be downloaded.

THE PROPERTY ({p['id']}: {p['title']})
Statement: {p['statement']}
Quantifier: {p['quantifier']['text']}
Code it is anchored in: {", ".join(p['anchors']['files'])}
Mechanisms meant to make it hold:
{mech}

YOUR TASK
Produce {n} DIFFERENT changes to the project's non-test Go source (each one small: a few lines, the kind of slip or 'optimisation' a developer could plausibly make), such that for each change:
 1. the project still compiles (`go build ./...`) and the ENTIRE existing test suite still passes unedited (`go test -vet=off -count=1 ./...`);
 2. the property above is genuinely broken by the change;
 3. the breakage needs something specific to manifest — a particular unusual input (e.g. non-ASCII / non-BMP characters, CRLF, empty or boundary values), a multi-step sequence of operations, a second call after a first one, or two cooperating sites that each look fine alone — NOT something that ordinary use or a casual smoke test would expose at once;
 4. you provide a demonstration: a Go test file (in-package `_test.go`, or a small program) that FAILS with the change applied and PASSES on the unchanged tree. Verify both directions yourself (flip with `git diff > p.diff; git apply -R p.diff; ...; git apply p.diff` — never `git stash`: the stash is shared with sibling worktrees other people are using).
Prefer changes in different functions/mechanisms from each other, and spread them over different clauses of the statement; at least one of them should sit away from the most obvious site named above — in a helper it depends on, in a caller that feeds it, or split over two sites that must cooperate. Earlier rounds of this exercise already covered the most obvious edits at the named sites (dropping a clamp, rune-vs-UTF-16 length swaps, moving a cache check, hoisting a loop-invariant call, case-insensitive comparisons): look for something subtler or somewhere else. Later rounds also used up: filtering or rewriting requests in the dispatcher (cmd/hledger-lsp), dropping the percent-decoding of URIs, skipping glob matches / cache-hit error wrapping in the include loader, moving characters around the commodity symbol in the formatter, rewriting small string helpers of the folding code, replacing sort.Strings by a comparator sort, turning a continue into a break in the tag scanner, and negating an int32 exponent. Do not edit or delete existing tests. Do not add build tags. Do not touch files named zz_contracts_verif.go if any exist.

DELIVERABLE — for each change k = {first}..{last} create the directory {wt}/_seeded/{pid}-k/ containing:
  - patch.diff : `git diff` of the source change ONLY (no test files), applicable with `git apply` at the repository root of the unchanged tree;
  - demo_test.go : the demonstration test (state in a top comment which package directory it must be copied to, e.g. `// copy to internal/parser/`), using a unique test function name prefixed TestSeeded;
  - meta.json : {{"property": "{pid}", "summary": "...what the change does...", "needs": "...what it needs in order to manifest...", "demo_pkg": "internal/<pkg>", "demo_run": "<TestName>", "ran": ["the commands you ran and their outcomes"]}}.
Leave the worktree itself clean (git checkout -- . ; remove any test file you added outside _seeded) when you are done. In your final message list the changes (one line each) and confirm suite-pass + demo-fail/demo-pass for each.""")
