#!/usr/bin/env python3
"""tools/why.py <property> : one line per failing obligation of the last run (instance, solver verdicts)"""
import json,glob,sys,os
for f in sorted(glob.glob(f'/verif/replays/{sys.argv[1]}/*.json'), key=os.path.getmtime):
    if os.path.getmtime(f) < float(sys.argv[2]) if len(sys.argv)>2 else False: continue
    d=json.load(open(f))
    print(d.get('failed_instance'), [(a['solver'],a['verdict'],round(a['solver_s'],1)) for a in d.get('solver_attempts',[]) if a['solver']!='replay'])
