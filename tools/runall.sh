#!/bin/sh
# runs every claimed quick check against /repo; prints one line per property; exit 1 if any check exits non-zero
cd "$(dirname "$0")/.."
rc=0
for p in $(jq -r '.checks[].property_id' MANIFEST.json); do
  out=$(./check.sh $p ${1:-quick} 2>&1); code=$?
  echo "$p exit=$code $(echo "$out" | grep '^govc:' | cut -c1-150)"
  [ $code -eq 0 ] || { rc=1; echo "$out" | grep -E '^VIOLATION|FAILED' | head -5; }
done
exit $rc
