import sys,os,hashlib,subprocess,glob
# for each dumped query: keep declarations and closed universally quantified axioms only; dedupe; run default-config solvers
def forms_of(src):
    forms=[];d=0;cur='';ins=False;inc=False
    for ch in src:
        if inc:
            if ch=='\n': inc=False
            continue
        if ch==';' and not ins and d==0: inc=True; continue
        if ch=='"': ins=not ins
        if not ins:
            if ch=='(' : d+=1
            elif ch==')':
                d-=1
                if d==0: cur+=ch; forms.append(cur.strip()); cur=''; continue
        if d>0: cur+=ch
    return forms
seen={}
for f in glob.glob(sys.argv[1]+'/*.smt2'):
    fs=forms_of(open(f).read())
    keep=[x for x in fs if not x.startswith('(assert') or x.startswith('(assert (forall')]
    keep=[x for x in keep if not x.startswith('(check-sat') and not x.startswith('(get-')]
    t='\n'.join(keep)+'\n(check-sat)\n'
    h=hashlib.sha1(t.encode()).hexdigest()
    if h not in seen: seen[h]=(f,t)
print(len(seen),'distinct axiom sets')
bad=0
for h,(f,t) in seen.items():
    p='/tmp/work/audit_'+h[:8]+'.smt2'
    open(p,'w').write(t)
    for solver in (['/usr/bin/z3','-T:5'],['z3-new','-T:5']):
        r=subprocess.run(solver+[p],capture_output=True,text=True).stdout
        ls=[x for x in r.split('\n') if x and not x.startswith('WARNING')]
        v=ls[0] if ls else ''
        if v=='unsat':
            print('INCONSISTENT',solver[0],os.path.basename(f),p); bad+=1; break
    else:
        os.remove(p)
print('inconsistent sets:',bad)
