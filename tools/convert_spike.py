#!/usr/bin/env python3
# one-off: convert the round-0 spike contract files into zz_contracts_verif.go hook files
import re,sys
props = {
 'parser': lambda f: 'C06',
 'lsputil': lambda f: 'C01 C06',
 'analyzer': lambda f: {'sumByCommodity':'C02 C06','countInferredPostings':'C02 C06','filterRealPostings':'C02 C06','CheckBalance':'C02 C06',
      'CalculateAccountBalancesFromTransactions':'C20','isAccountDeclared':'C18','checkUndeclaredCommodities':'C18',
      '(*Analyzer).createBalanceDiagnostic':'C02','collectDeclaredAccountsFromResolved':'C18'}.get(f,'C02'),
 'server': lambda f: {'toBool':'C19','toString':'C19','toInt64':'C19','toInt':'C19','normalizeServerSettings':'C19','applySettingsMap':'C19',
      '(*Server).shouldIncludeDiagnostic':'C02 C18 C19','(*SemanticTokenEncoder).Encode':'C17 C06','computeSemanticTokensEdits':'C17','mapTokenType':'C17',
      'encodeTokens':'C17 C06','astRangeToProtocol':'C08','positionInRange':'C08','estimatePayeeRange':'C08','tokenizeForSemantics':'C17 C06'}.get(f,'C19'),
 'include': lambda f: 'C10 C11',
 'workspace': lambda f: 'C12',
}
def conv(pkg, src, ghost=''):
    out=['//go:build verif','','package '+pkg,'',
         '// Contracts for the govc verification-condition generator (/verif/DESIGN.md section 3.4).',
         '// This file is compiled only with the build tag "verif"; every contract line starts with //@.','']
    for line in open(src):
        line=line.rstrip('\n')
        if line.startswith('package '): continue
        if not line.strip():
            out.append(''); continue
        line=re.sub(r'\[(C\d\d)_([A-Za-z0-9_]+)\]', r'[\1:\2]', line)
        out.append('//@ '+line)
        m=re.match(r'func (.*)$', line)
        if m:
            out.append('//@   props '+props[pkg](m.group(1).strip()))
    if ghost:
        out.append('')
        out.append(ghost)
    return '\n'.join(out)+'\n'
if __name__=='__main__':
    pkg,src,dst=sys.argv[1:4]
    ghost=open(sys.argv[4]).read().split('\n',2)[2] if len(sys.argv)>4 else ''
    open(dst,'w').write(conv(pkg,src,ghost))
