#!/usr/bin/env python3
"""tools/mkmutant.py name file 'old' 'new' property expected-clause : writes selftest/mutants/<name>.patch and appends expect.tsv"""
import sys, os, difflib
ROOT = os.path.dirname(os.path.dirname(os.path.abspath(__file__)))
name, f, old, new, prop, expect = sys.argv[1:7]
src = open(os.path.join("/repo", f)).read()
assert src.count(old) >= 1, "target not found: " + old
dst = src.replace(old, new, 1)
d = "".join(difflib.unified_diff(src.splitlines(True), dst.splitlines(True), "a/" + f, "b/" + f))
open(os.path.join(ROOT, "selftest", "mutants", name + ".patch"), "w").write(d)
tsv = os.path.join(ROOT, "selftest", "expect.tsv")
lines = [l for l in (open(tsv).read().splitlines() if os.path.exists(tsv) else []) if not l.startswith("selftest/mutants/" + name + ".patch\t")]
lines.append(f"selftest/mutants/{name}.patch\t{prop}\t{expect}")
open(tsv, "w").write("\n".join(lines) + "\n")
