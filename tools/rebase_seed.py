#!/usr/bin/env python3
"""tools/rebase_seed.py <seed-id> <spec.py> : rewrite seeded/<id>/patch.diff against /repo's current tree.
spec.py defines EDITS = [(file, old, new), ...] (exact text replacements, each must match once); the former patch is kept
as patch.diff.orig-<n>. Used when a repair of /repo changed the code a seeded change was written against: the change is
carried over by hand, then confirmed and detected again with tools/seedtest.py."""
import sys, os, difflib, runpy
ROOT = os.path.dirname(os.path.dirname(os.path.abspath(__file__)))
sid, spec = sys.argv[1], sys.argv[2]
edits = runpy.run_path(spec)["EDITS"]
files = {}
for f, old, new in edits:
    src = files.get(f) or open(os.path.join("/repo", f)).read()
    assert src.count(old) == 1, (f, old[:60], src.count(old))
    files[f] = src.replace(old, new, 1)
out = ""
for f, dst in sorted(files.items()):
    src = open(os.path.join("/repo", f)).read()
    out += "".join(difflib.unified_diff(src.splitlines(True), dst.splitlines(True), "a/" + f, "b/" + f))
d = os.path.join(ROOT, "seeded", sid)
n = 1
while os.path.exists(os.path.join(d, "patch.diff.orig-%d" % n)): n += 1
os.rename(os.path.join(d, "patch.diff"), os.path.join(d, "patch.diff.orig-%d" % n))
open(os.path.join(d, "patch.diff"), "w").write(out)
print("rebased", sid, len(out.splitlines()), "lines")
