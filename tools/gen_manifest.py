#!/usr/bin/env python3
"""Writes /verif/MANIFEST.json from the table below (kept in one place so that it stays valid)."""
import json, os
ROOT = os.path.dirname(os.path.dirname(os.path.abspath(__file__)))
TECH = "contract-based deductive verification: pre/postconditions, loop invariants, variants and frames on the real functions (//@ contracts in /repo/internal/*/zz_contracts_verif.go), VCs generated from go/ssa of /repo's current source by govc, discharged by z3 5.1.0 / z3 4.8.12 / cvc5 1.0.3"
NOTE = ("Trusted base: go/packages+go/ssa (x/tools v0.50.0), the govc VC generator, the SMT solvers, the SMT prelude axioms, the assumed library "
        "contracts (strings, utf8, decimal as exact reals, maps.Copy, sort) and the modelling assumptions listed in the evidence file "
        "(mathematical int, no goroutines, fresh append, opaque fmt/floats/fs). Functions marked trusted in the contract files are listed in evidence.")
claimed = {
 # id: (level text, design ref)
}
def claim(pid, text, ref):
    claimed[pid] = (text, ref)

na = {
 "C03": "round trip relative to the grammar G: an induction over derivations against lexer∘parser; no per-function contract within reach states 'the structure the text was written from' (DESIGN.md 5.C03)",
 "C07": "relation between two parses (intact vs damaged) over unbounded token streams: a 2-safety property needing a product construction the generator does not build (DESIGN.md 5.C07)",
 "C13": "quantifies over goroutine schedules and whole histories ('last publish'); the verification model is sequential (DESIGN.md 5.C13)",
 "C14": "data races, deadlocks and linearisability are properties of interleavings; mutexes are no-ops in the sequential model (DESIGN.md 5.C14)",
}
pending = {}
exec(open(os.path.join(ROOT, "tools", "claims.py")).read())
checks = []
for pid in sorted(claimed):
    text, ref = claimed[pid]
    checks.append({
        "property_id": pid,
        "quick_cmd": f"./check.sh {pid} quick",
        "thorough_cmd": f"./check.sh {pid} thorough",
        "evidence_file": f"/verif/evidence/{pid}.json",
        "replay_cmd_template": "bin/govc replay {path}",
        "engine": "govc",
        "level_claimed": {"category": "proof", "text": text, "design_ref": ref},
        "level_note": NOTE,
        "technique": TECH,
    })
not_app = [{"property_id": k, "reason": v} for k, v in sorted({**na, **pending}.items()) if k not in claimed]
m = {
 "version": 1,
 "setup_cmd": "./setup.sh",
 "hooks": {
   "guard": "verif",
   "enable": "go build tag 'verif' (packages are loaded with -tags=verif; the hook files contain //@ contract comments and ghost lemma functions only)",
   "baseline_off_cmd": "cd /repo && GOFLAGS=-mod=mod GOPROXY=off go test -json -vet=off -count=1 -timeout 25m ./...",
   "source_commits": [l.strip() for l in open(os.path.join(ROOT, "tools", "hook_commits.txt")) if l.strip()],
   "add_only": True,
 },
 "engines": [{"name": "govc", "path": "/verif/govc", "serves_properties": sorted(claimed), "kind_free_text": "VC generator over go/ssa + SMT portfolio (z3 5.1.0, z3 4.8.12, cvc5 1.0.3)"}],
 "checks": checks,
 "not_applicable": not_app,
 "notes": "See DESIGN.md. Known findings: known_findings.json (witness tests under findings/). Must-fail corpus: selftest/.",
}
json.dump(m, open(os.path.join(ROOT, "MANIFEST.json"), "w"), indent=1, ensure_ascii=False)
print("claimed:", sorted(claimed), "not_applicable:", [x["property_id"] for x in not_app])
