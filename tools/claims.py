# claims: one entry per property claimed in MANIFEST.json; pending: not (yet) claimed, with the reason
claim("C01", "Proof (all inputs, unbounded) of the mapper functions the document mirror is built from: UTF-16/byte conversions, NewPositionMapper's line table invariant, LSPToByte inside the addressed line, ApplyChange panic-free for every range. The CRLF clamp clause is refuted (known finding). DidOpen/DidChange/DidClose plumbing over sync.Map is not under contract yet (named undecided in evidence).", "5.C01")
claim("C02", "Proof for all transactions (any number of postings and commodities) that CheckBalance's verdict, differences and inferred-posting handling equal the exact-sum specification (rresid/rninf spec functions over ordinary and balanced-virtual postings, cost conversion as in the statement), with filterRealPostings, countInferredPostings and sumByCommodity proved against the same spec and four induction lemmas. Number-notation independence and the diagnostics plumbing are undecided (named in evidence).", "5.C02")
claim("C08", "Proof of the lexer position bookkeeping clauses and the server range helpers (astRangeToProtocol value-preserving conversions, positionInRange exact, estimatePayeeRange shape). Two property-derived clauses are refuted on the pinned tree and recorded as known findings with replayed inputs. Other range builders are undecided (named in evidence).", "5.C08")
claim("C19", "Proof that the settings converters are total on every interface{} value (no failing type assertion), that applySettingsMap implements dotted-over-nested precedence and keeps old values for ill-typed entries (sample fields), and that normalizeServerSettings falls back to defaults for non-positive numbers. 'Takes effect on subsequent behaviour' is undecided.", "5.C19")
claim("C20", "Proof for all transaction lists that CalculateAccountBalancesFromTransactions returns, for every account and commodity, exactly the double sum of explicitly posted quantities (nested-map ownership invariant, two nested loops). Counting helpers, AllTransactions and hover rendering are undecided (named in evidence).", "5.C20")
claim("C12", "Proof for all index states and file indexes that addFileIndex/removeFileIndex (the real functions, all nine loops) change the account/payee/commodity/tag/date counters by exactly the file's counts (for every key), maintain the file table and the payee templates as coded, touch no other counter (frames incl. the nested tag-value maps), that decrementBy/copyIntMap meet their map specifications, and - as a lemma over those two contracts only - that remove(add(S,f),f) restores every counter. The same lemma for payee templates is refuted (known finding). Tag-value counts, the transaction index, derived sorted lists, include-graph membership (refreshIncludeTreeLocked) and declared sets are undecided (named in evidence).", "5.C12")
for pid, why in {
 "C04": "not claimed yet: formatter contracts are not written in this commit",
 "C05": "not claimed yet: formatter contracts are not written in this commit",
 "C06": "not claimed yet: two obligations of tokenizeForSemantics are still open in this commit",
 "C09": "not claimed yet: references/rename contracts are not written in this commit",
 "C10": "not claimed yet: loader contracts being ported",
 "C11": "not claimed yet: loader contracts being ported",
 "C15": "not claimed yet: order-independence obligations not wired in this commit",
 "C16": "not claimed yet: completion contracts are not written in this commit",
 "C17": "not claimed yet: tokenizer contracts being completed",
 "C18": "not claimed yet: one function outside the generator subset in this commit",
}.items():
    pending[pid] = why
