import subprocess,sys
src=open(sys.argv[1]).read()
solver=sys.argv[2:] or ['/usr/bin/z3','-T:10']
# split into top-level forms
forms=[];d=0;cur='';ins=False;incomment=False
for ch in src:
    if incomment:
        if ch=='\n': incomment=False
        if d>0: cur+=ch
        continue
    if ch==';' and not ins:
        incomment=True; continue
    if ch=='"': ins=not ins
    if not ins:
        if ch=='(':
            d+=1
        elif ch==')':
            d-=1
            if d==0:
                cur+=ch; forms.append(cur.strip()); cur=''; continue
    if d>0: cur+=ch
asserts=[i for i,f in enumerate(forms) if f.startswith('(assert')]
def run(keep):
    t='\n'.join(f for i,f in enumerate(forms) if not f.startswith('(assert') or i in keep)
    open('/tmp/work/dd.smt2','w').write(t)
    r=subprocess.run(solver+['/tmp/work/dd.smt2'],capture_output=True,text=True).stdout
    ls=[x for x in r.split('\n') if x and not x.startswith('WARNING')]
    return ls[0] if ls else ''
keep=set(asserts)
assert run(keep)=='unsat', run(keep)
chunk=max(1,len(keep)//2)
while chunk>=1:
    changed=False
    lst=sorted(keep)
    for k in range(0,len(lst),chunk):
        trial=keep-set(lst[k:k+chunk])
        if run(trial)=='unsat':
            keep=trial; changed=True
    if not changed:
        if chunk==1: break
        chunk//=2
    else:
        chunk=max(1,min(chunk,len(keep)//2))
print(len(keep))
for i in sorted(keep): print(forms[i][:2500]); print()
