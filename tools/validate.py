#!/usr/bin/env python3
import json, glob, sys, os
import jsonschema
root = os.path.dirname(os.path.dirname(os.path.abspath(__file__)))
jsonschema.validate(json.load(open(root + '/MANIFEST.json')), json.load(open('/root/.vp/MANIFEST.schema.json')))
print('MANIFEST ok')
s = json.load(open('/root/.vp/EVIDENCE.schema.json'))
for f in sorted(glob.glob(root + '/evidence/*.json')):
    jsonschema.validate(json.load(open(f)), s)
    print(os.path.basename(f), 'ok')
