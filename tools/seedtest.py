#!/usr/bin/env python3
"""Seeded changes (written by independent sub-agents who saw only the property text):
  tools/seedtest.py import <agent-dir> ...   copy <agent-dir>/_seeded/* into /verif/seeded/ (patch.diff, demo_test.go, meta.json)
  tools/seedtest.py confirm [ids...]          in a scratch copy: patch applies, builds, the unedited suite passes, demo fails with / passes without
  tools/seedtest.py detect  [ids...]          run the property's check against a scratch copy with the patch applied; record which obligations fail
Scratch copies live under $TMPDIR and are removed after each step. Nothing is ever applied to /repo by this script."""
import json, os, re, shutil, subprocess, sys, tempfile, concurrent.futures as cf
ROOT = os.path.dirname(os.path.dirname(os.path.abspath(__file__)))
REPO = "/repo"
ENV = {**os.environ, "GOFLAGS": "-mod=mod", "GOPROXY": "off"}
SEEDED = os.path.join(ROOT, "seeded")
GOVC = os.path.join(ROOT, "bin", "govc")


def prep_verif(ver):
    """scratch /verif for a run against a scratch repo: the committed findings, witnesses and bounded stand-ins"""
    shutil.copy(os.path.join(ROOT, "known_findings.json"), ver)
    shutil.copytree(os.path.join(ROOT, "findings"), os.path.join(ver, "findings"))
    for extra in ("bounded.json", "undecided.json", "sweep_baseline.json"):
        if os.path.exists(os.path.join(ROOT, extra)):
            shutil.copy(os.path.join(ROOT, extra), ver)
    if os.path.isdir(os.path.join(ROOT, "bounded")):
        shutil.copytree(os.path.join(ROOT, "bounded"), os.path.join(ver, "bounded"))


def sh(cmd, cwd, timeout=900):
    p = subprocess.run(cmd, cwd=cwd, capture_output=True, text=True, env=ENV, timeout=timeout)
    return p.returncode, p.stdout + p.stderr

def scratch(with_patch, sid):
    tmp = tempfile.mkdtemp(prefix="govc-seed-")
    repo = os.path.join(tmp, "repo")
    shutil.copytree(REPO, repo, ignore=shutil.ignore_patterns(".git"))
    if with_patch:
        rc, out = sh(["patch", "-p1", "-s", "-i", os.path.join(SEEDED, sid, "patch.diff")], repo)
        if rc != 0:
            shutil.rmtree(tmp); raise RuntimeError("patch does not apply: " + out)
    return tmp, repo

def meta(sid):
    return json.load(open(os.path.join(SEEDED, sid, "meta.json")))
def save(sid, m):
    json.dump(m, open(os.path.join(SEEDED, sid, "meta.json"), "w"), indent=1, ensure_ascii=False)

def demo(repo, sid, m):
    pkg = m["demo_pkg"].strip("/")
    dst = os.path.join(repo, pkg, "zz_seeded_demo_test.go")
    shutil.copy(os.path.join(SEEDED, sid, "demo_test.go"), dst)
    rc, out = sh(["go", "test", "-vet=off", "-count=1", "-run", "^" + m["demo_run"] + "$", "."], os.path.join(repo, pkg))
    os.remove(dst)
    return rc, out

def confirm(sid):
    m = meta(sid)
    res = {}
    tmp, repo = scratch(True, sid)
    try:
        rc, out = sh(["go", "build", "./..."], repo); res["builds"] = rc == 0
        rc, out = sh(["go", "test", "-vet=off", "-count=1", "./..."], repo); res["suite_passes_with_change"] = rc == 0
        if rc != 0: res["suite_output"] = out[-800:]
        rc, out = demo(repo, sid, m); res["demo_fails_with_change"] = rc != 0 and "FAIL" in out
        res["demo_output_with_change"] = out[-600:]
    finally:
        shutil.rmtree(tmp, ignore_errors=True)
    tmp, repo = scratch(False, sid)
    try:
        rc, out = demo(repo, sid, m); res["demo_passes_without_change"] = rc == 0
        if rc != 0: res["demo_output_without_change"] = out[-600:]
    finally:
        shutil.rmtree(tmp, ignore_errors=True)
    res["confirmed"] = all(res.get(k) for k in ("builds", "suite_passes_with_change", "demo_fails_with_change", "demo_passes_without_change"))
    m["confirmation"] = res
    save(sid, m)
    return sid, res["confirmed"], {k: v for k, v in res.items() if isinstance(v, bool)}

_base = {}
def baseline(prop):
    if prop not in _base:
        tmp = tempfile.mkdtemp(prefix="govc-seed-base-")
        try:
            ver = os.path.join(tmp, "verif"); os.makedirs(ver)
            prep_verif(ver)
            r = subprocess.run([GOVC, "check", "-property", prop, "-repo", REPO, "-verif", ver, "-v"], capture_output=True, text=True, env=ENV)
            _base[prop] = {l.split()[1] for l in r.stdout.splitlines() if l.strip().startswith("FAILED ")}
        finally:
            shutil.rmtree(tmp, ignore_errors=True)
    return _base[prop]

def detect(sid):
    m = meta(sid)
    props = m.get("check_properties") or [m["property"]]
    tmp, repo = scratch(True, sid)
    det = {}
    try:
        for prop in props:
            ver = os.path.join(tmp, "verif-" + prop); os.makedirs(ver)
            prep_verif(ver)
            r = subprocess.run([GOVC, "check", "-property", prop, "-repo", repo, "-verif", ver, "-v"], capture_output=True, text=True, env=ENV)
            known = {l.split()[2].rstrip(":") for l in r.stdout.splitlines() if l.startswith("KNOWN-FINDING:")}
            failed = [l.split()[1] for l in r.stdout.splitlines() if l.strip().startswith("FAILED ")]
            new = [f for f in failed if f not in baseline(prop)]
            det[prop] = {"exit": r.returncode, "violations": sum(1 for l in r.stdout.splitlines() if l.startswith("VIOLATION")),
                         "failed_obligations": new, "known_findings_still_reported": sorted(known)}
    finally:
        shutil.rmtree(tmp, ignore_errors=True)
    m["detection"] = det
    m["detected"] = any(d["exit"] == 1 and d["violations"] > 0 and d["failed_obligations"] for d in det.values())
    save(sid, m)
    return sid, m["detected"], {p: d["failed_obligations"][:4] for p, d in det.items()}

def snapshot_repo():
    """detect / confirm run for hours: work from one snapshot of /repo taken now, so that /repo may be edited meanwhile"""
    global REPO
    snap = tempfile.mkdtemp(prefix="govc-seed-snap-")
    dst = os.path.join(snap, "repo")
    shutil.copytree(REPO, dst, ignore=shutil.ignore_patterns(".git"))
    REPO = dst
    global GOVC
    GOVC = os.path.join(snap, "govc")
    shutil.copy(os.path.join(ROOT, "bin", "govc"), GOVC)
    os.chmod(GOVC, 0o755)
    return snap

def main():
    cmd = sys.argv[1]; args = sys.argv[2:]
    if cmd == "import":
        for d in args:
            src = os.path.join(d, "_seeded")
            for name in sorted(os.listdir(src)):
                dst = os.path.join(SEEDED, name)
                if os.path.exists(dst): continue
                shutil.copytree(os.path.join(src, name), dst)
                print("imported", name)
        return 0
    ids = args or [s for s in sorted(os.listdir(SEEDED)) if not meta(s).get("retired")]
    f = confirm if cmd == "confirm" else detect
    snap = snapshot_repo()
    try:
        return run(cmd, f, ids)
    finally:
        shutil.rmtree(snap, ignore_errors=True)

def run(cmd, f, ids):
    if cmd == "detect":
        for sid in ids:
            for prop in (meta(sid).get("check_properties") or [meta(sid)["property"]]): baseline(prop)
    bad = 0
    def safe(sid):
        try:
            return f(sid)
        except Exception as e:
            return sid, False, {"error": str(e)[:200]}
    with cf.ThreadPoolExecutor(max_workers=4) as ex:
        for sid, ok, info in ex.map(safe, ids):
            print(("OK   " if ok else "NOT  ") + cmd, sid, info)
            bad += 0 if ok else 1
    return 0
if __name__ == "__main__":
    sys.exit(main())
