package main

import (
	"fmt"
	"go/constant"
	"go/token"
	"go/types"
	"os"
	"regexp"
	"sort"
	"strconv"
	"strings"

	"golang.org/x/tools/go/ssa"
)

type Val struct {
	T   string
	Typ types.Type
}

type Addr struct {
	Local *ssa.Alloc
	Ref   string       // heap reference term (when Local == nil)
	Base  *types.Named // struct type of the heap object / local cell root type
	Path  []int
	Root  types.Type // type of the cell root (local) or struct (heap)
	Elem  bool       // element of a slice backing array: Ref = array ref, Idx = absolute index, Root = element type
	Idx   string
	Sl    string // slice term and relative index (for reads through the elt accessor)
	RelIx string
}

type Obligation struct {
	Name     string // pkg.Func#kind.label@site~n (unique within the run)
	Clause   string // pkg.Func#kind.label (stable identity used for reporting and known findings)
	Func     string
	Props    []string // properties of a tagged clause (nil: structural)
	MustFail bool     // vacuity canary: must NOT be provable
	Sample   bool     // thorough tier: also sent to cvc5 (seeded sample)
	Query    string
	Pos      string
}

type Ctx struct {
	prog       *ssa.Program
	pkg        *ssa.Package
	cs         *Contracts
	n          int
	decls      []string
	defs       []string
	dts        map[string]bool
	dtDecls    []string
	allocCache map[*ssa.Function]*allocSet
	eltSeq     map[string][2]string // elt accessor -> (Seq sort, element sort)
	obls       []Obligation
	strlits    map[string]string
	heap0      map[string]string
	heapSrt    map[string]string
	notes      []string
	globals    map[string]string
	ifTags     map[string]int
	oblN       int
	specs      map[string]*specInfo
	refuted    map[string]bool           // callee clauses known to be false on the real code (known findings): never assumed
	addrVals   map[string]Addr           // contract-level stand-ins for addresses of locals / elements
	property   string                    // the property being checked (some property-derived obligations are raised only under their property)
	heapTyp    map[string]types.Type     // field heap key -> Go type of the field (where known)
	sweep      bool                      // zero-annotation sweep: uncontracted callees with loops are havoc
	statPath   map[string]string         // FileInfo value returned by os.Stat -> the path it describes
	expOf      map[string]string         // decimal term -> the exponent symbol read from it (Decimal.Exponent)
	skipProp   func(props []string) bool // ensures clauses of other properties are not checked in this run
}

type specInfo struct {
	def      SpecDef
	keys     []string
	ret      types.Type
	declared bool
	busy     bool
}

type State struct {
	pc    string
	cells map[cellKey]string
	heap  map[string]string
	sel   map[*ssa.BasicBlock]string // incoming-edge selectors of the current block (for Phi)
	param *paramHeap                 // non-nil: heap arrays are bound variables of a spec definition
}

type paramHeap struct {
	vars  map[string]string // key -> bound variable
	order []string
}

// cellKey names one leaf of a local variable: the Alloc plus the field path ("" for scalars, "2.0" for x.f2.f0).
type cellKey struct {
	a    *ssa.Alloc
	path string
}

func pathStr(p []int) string {
	var b strings.Builder
	for i, f := range p {
		if i > 0 {
			b.WriteByte('.')
		}
		fmt.Fprint(&b, f)
	}
	return b.String()
}

func (c *Ctx) expandable(t types.Type) (*types.Struct, bool) {
	st, ok := t.Underlying().(*types.Struct)
	if !ok || isDecimal(t) || isBuilder(t) || c.sortOf(t) == "U" {
		return nil, false
	}
	return st, true
}

// readCell composes the value of the (sub)object of alloc a at path p with type t from its leaves.
func (c *Ctx) readCell(st *State, a *ssa.Alloc, t types.Type, p []int) string {
	if stt, ok := c.expandable(t); ok {
		var fs []string
		for i := 0; i < stt.NumFields(); i++ {
			fs = append(fs, c.readCell(st, a, stt.Field(i).Type(), append(append([]int{}, p...), i)))
		}
		if len(fs) == 0 {
			fs = append(fs, "0")
		}
		return fmt.Sprintf("(mk-%s %s)", c.sortOf(t), strings.Join(fs, " "))
	}
	k := cellKey{a, pathStr(p)}
	if v, ok := st.cells[k]; ok {
		return v
	}
	v := c.fresh("uninit_"+a.Comment, c.sortOf(t))
	st.cells[k] = v
	return v
}

// writeCell decomposes term (of type t) into the leaves of alloc a below path p.
func (c *Ctx) writeCell(st *State, a *ssa.Alloc, t types.Type, p []int, term string) {
	if stt, ok := c.expandable(t); ok {
		name := c.sortOf(t)
		if strings.ContainsAny(term, " (") {
			// name compound struct values before projecting their fields
			n := c.fresh("sv", name)
			c.defs = append(c.defs, fmt.Sprintf("(assert (= %s %s))", n, term))
			term = n
		}
		for i := 0; i < stt.NumFields(); i++ {
			c.writeCell(st, a, stt.Field(i).Type(), append(append([]int{}, p...), i), fmt.Sprintf("(%s.%s %s)", name, stt.Field(i).Name(), term))
		}
		return
	}
	st.cells[cellKey{a, pathStr(p)}] = term
}

func (c *Ctx) typeAtStr(t types.Type, path string) types.Type {
	if path == "" {
		return t
	}
	for _, f := range strings.Split(path, ".") {
		var i int
		fmt.Sscan(f, &i)
		t = t.Underlying().(*types.Struct).Field(i).Type()
	}
	return t
}

func (c *Ctx) typeAt(t types.Type, p []int) types.Type {
	for _, f := range p {
		t = t.Underlying().(*types.Struct).Field(f).Type()
	}
	return t
}

// sortedCellKeys: deterministic order (the text of every query must not depend on Go's map iteration order).
func sortedCellKeys(m map[cellKey]bool) []cellKey {
	ks := make([]cellKey, 0, len(m))
	for k := range m {
		ks = append(ks, k)
	}
	sort.Slice(ks, func(i, j int) bool {
		if ks[i].a != ks[j].a {
			if ks[i].a.Pos() != ks[j].a.Pos() {
				return ks[i].a.Pos() < ks[j].a.Pos()
			}
			if ks[i].a.Name() != ks[j].a.Name() {
				return ks[i].a.Name() < ks[j].a.Name()
			}
			return fmt.Sprintf("%p", ks[i].a) < fmt.Sprintf("%p", ks[j].a)
		}
		return ks[i].path < ks[j].path
	})
	return ks
}

func sortedStrKeys(m map[string]bool) []string {
	ks := make([]string, 0, len(m))
	for k := range m {
		ks = append(ks, k)
	}
	sort.Strings(ks)
	return ks
}

func (s *State) hasCell(a *ssa.Alloc) bool {
	for k := range s.cells {
		if k.a == a {
			return true
		}
	}
	return false
}

func (s *State) clone() *State {
	n := &State{pc: s.pc, cells: make(map[cellKey]string, len(s.cells)), heap: make(map[string]string, len(s.heap))}
	for k, v := range s.cells {
		n.cells[k] = v
	}
	for k, v := range s.heap {
		n.heap[k] = v
	}
	return n
}

func (c *Ctx) fresh(prefix, sort string) string {
	c.n++
	name := fmt.Sprintf("%s_%d", sanitize(prefix), c.n)
	c.decls = append(c.decls, fmt.Sprintf("(declare-const %s %s)", name, sort))
	return name
}

func sanitize(s string) string {
	var b strings.Builder
	for _, r := range s {
		if (r >= 'a' && r <= 'z') || (r >= 'A' && r <= 'Z') || (r >= '0' && r <= '9') || r == '_' {
			b.WriteRune(r)
		} else {
			b.WriteByte('_')
		}
	}
	if b.Len() == 0 {
		return "x"
	}
	return b.String()
}

func (c *Ctx) note(format string, a ...any) {
	c.notes = append(c.notes, fmt.Sprintf(format, a...))
}

// ---- sorts and datatypes ----

func (c *Ctx) dtName(n *types.Named) string {
	return sanitize(n.Obj().Pkg().Name() + "_" + n.Obj().Name())
}

func isDecimal(t types.Type) bool {
	n, ok := t.(*types.Named)
	return ok && n.Obj().Pkg() != nil && n.Obj().Pkg().Path() == "github.com/shopspring/decimal" && n.Obj().Name() == "Decimal"
}

func isBuilder(t types.Type) bool {
	n, ok := t.(*types.Named)
	return ok && n.Obj().Pkg() != nil && n.Obj().Pkg().Path() == "strings" && n.Obj().Name() == "Builder"
}

func (c *Ctx) sortOf(t types.Type) string {
	if isDecimal(t) {
		return "Real"
	}
	if isBuilder(t) {
		return "Str" // a strings.Builder is the string it holds
	}
	if _, ok := t.Underlying().(*types.Interface); ok {
		if !c.dts["Iface"] {
			c.dts["Iface"] = true
			c.dtDecls = append(c.dtDecls, "(declare-sort Iface 0)", "(declare-fun iftag (Iface) Int)", "(declare-const ifnil Iface)", "(assert (= (iftag ifnil) 0))",
				"(assert (forall ((v Iface)) (! (and (>= (iftag v) 0) (=> (= (iftag v) 0) (= v ifnil))) :pattern ((iftag v)))))")
		}
		return "Iface"
	}
	switch u := t.Underlying().(type) {
	case *seqType:
		es := c.sortOf(u.elem)
		name := "Seq_" + sanitize(es)
		if !c.dts[name] {
			c.dts[name] = true
			c.dtDecls = append(c.dtDecls, fmt.Sprintf("(declare-datatypes ((%s 0)) (((mk-%s (sq.arr (Array Int %s)) (sq.off Int) (sq.len Int)))))", name, name, es))
			c.dtDecls = append(c.dtDecls, fmt.Sprintf("(declare-fun sqat_%s (%s Int) %s)", name, name, es))
			c.dtDecls = append(c.dtDecls, fmt.Sprintf("(assert (forall ((q %s) (j Int)) (! (= (sqat_%s q j) (select (sq.arr q) (+ (sq.off q) j))) :pattern ((sqat_%s q j)))))", name, name, name))
		}
		return name
	case *types.Slice:
		if !c.dts["Slice"] {
			c.dts["Slice"] = true
			c.dtDecls = append(c.dtDecls, "(declare-datatypes ((Slice 0)) (((mk-slice (sl.arr Int) (sl.off Int) (sl.len Int)))))")
		}
		return "Slice"
	case *types.Map:
		return "Int"
	case *types.Basic:
		switch {
		case u.Info()&types.IsBoolean != 0:
			return "Bool"
		case u.Info()&types.IsInteger != 0:
			return "Int"
		case u.Info()&types.IsString != 0:
			return "Str"
		}
		return "U"
	case *types.Pointer:
		return "Int"
	case *types.Struct:
		if n, ok := t.(*types.Named); ok {
			if n.Obj().Pkg() == nil || !(strings.HasPrefix(n.Obj().Pkg().Path(), "github.com/juev/hledger-lsp") || n.Obj().Pkg().Path() == "go.lsp.dev/protocol") {
				return "U"
			}
			name := c.dtName(n)
			if !c.dts[name] {
				c.dts[name] = true
				var fs []string
				for i := 0; i < u.NumFields(); i++ {
					fs = append(fs, fmt.Sprintf("(%s.%s %s)", name, u.Field(i).Name(), c.sortOf(u.Field(i).Type())))
				}
				if len(fs) == 0 {
					fs = append(fs, fmt.Sprintf("(%s.dummy Int)", name))
				}
				c.dtDecls = append(c.dtDecls, fmt.Sprintf("(declare-datatypes ((%s 0)) (((mk-%s %s))))", name, name, strings.Join(fs, " ")))
			}
			return name
		}
		return "U"
	}
	return "U"
}

func (c *Ctx) zero(t types.Type) string {
	if isDecimal(t) {
		return "0.0"
	}
	if isBuilder(t) {
		return c.strlit("")
	}
	if _, ok := t.Underlying().(*types.Interface); ok {
		c.sortOf(t)
		return "ifnil"
	}
	switch u := t.Underlying().(type) {
	case *types.Slice:
		c.sortOf(t)
		return "(mk-slice 0 0 0)"
	case *types.Map:
		return "0"
	case *types.Basic:
		switch {
		case u.Info()&types.IsBoolean != 0:
			return "false"
		case u.Info()&types.IsInteger != 0:
			return "0"
		case u.Info()&types.IsString != 0:
			return c.strlit("")
		}
	case *types.Pointer:
		return "0"
	case *types.Struct:
		if n, ok := t.(*types.Named); ok {
			name := c.sortOf(t)
			var fs []string
			for i := 0; i < u.NumFields(); i++ {
				fs = append(fs, c.zero(u.Field(i).Type()))
			}
			if len(fs) == 0 {
				fs = append(fs, "0")
			}
			_ = n
			return fmt.Sprintf("(mk-%s %s)", name, strings.Join(fs, " "))
		}
	}
	return c.fresh("zero", c.sortOf(t))
}

func (c *Ctx) strlit(s string) string {
	if n, ok := c.strlits[s]; ok {
		return n
	}
	c.n++
	name := fmt.Sprintf("lit_%d", c.n)
	c.strlits[s] = name
	c.decls = append(c.decls, fmt.Sprintf("(declare-const %s Str)", name))
	c.defs = append(c.defs, fmt.Sprintf("(assert (= (slen %s) %d))", name, len(s)))
	for i := 0; i < len(s); i++ {
		c.defs = append(c.defs, fmt.Sprintf("(assert (= (sat %s %d) %d))", name, i, s[i]))
	}
	return name
}

func intLit(n int64) string {
	if n < 0 {
		return fmt.Sprintf("(- %d)", -n)
	}
	return fmt.Sprintf("%d", n)
}

// ---- heap ----

func (c *Ctx) heapKey(n *types.Named, field int) (string, types.Type) {
	st := n.Underlying().(*types.Struct)
	return c.dtName(n) + "." + st.Field(field).Name(), st.Field(field).Type()
}

func (c *Ctx) paramVar(st *State, key, srt string) string {
	if v, ok := st.param.vars[key]; ok {
		return v
	}
	v := "hp_" + sanitize(key)
	st.param.vars[key] = v
	st.param.order = append(st.param.order, key)
	c.heapSrt[key] = srt
	return v
}

func (c *Ctx) heapGet(st *State, key string, elem types.Type) string {
	if elem != nil {
		if c.heapTyp == nil {
			c.heapTyp = map[string]types.Type{}
		}
		c.heapTyp[key] = elem
	}
	if st.param != nil {
		srt := c.heapSrt[key]
		if elem != nil {
			srt = fmt.Sprintf("(Array Int %s)", c.sortOf(elem))
		}
		return c.paramVar(st, key, srt)
	}
	if a, ok := st.heap[key]; ok {
		return a
	}
	if a, ok := c.heap0[key]; ok {
		return a
	}
	if elem == nil {
		return c.heapGetSort(st, key, c.heapSrt[key])
	}
	srt := fmt.Sprintf("(Array Int %s)", c.sortOf(elem))
	a := c.fresh("H0_"+key, srt)
	c.heap0[key] = a
	c.heapSrt[key] = srt
	// the entry heap holds no reference newer than the entry allocation counter
	if a0, ok := c.heap0[allocKey]; ok || true {
		if !ok {
			a0 = c.fresh("alloc0", "Int")
			c.heap0[allocKey] = a0
			c.heapSrt[allocKey] = "Int"
			c.defs = append(c.defs, fmt.Sprintf("(assert (>= %s 0))", a0), epochEntry(a0))
		}
		// (only for objects that existed at entry: the fields of an object a callee allocates during the call are read
		// from the same array when the callee's modifies clause does not name the field, and hold newer references)
		// epochOf(r): the allocation counter when the call that allocated r returned (the entry counter for objects that
		// existed at entry). A field that this function has not written still holds what it held then.
		if isRefType(elem) {
			c.defs = append(c.defs, fmt.Sprintf("(assert (forall ((r Int)) (! (<= (select %s r) (epochOf r)) :pattern ((select %s r)))))", a, a))
		} else if _, isSl := elem.Underlying().(*types.Slice); isSl {
			c.defs = append(c.defs, fmt.Sprintf("(assert (forall ((r Int)) (! (and (<= (sl.arr (select %s r)) (epochOf r)) (>= (sl.len (select %s r)) 0) (>= (sl.off (select %s r)) 0)) :pattern ((select %s r)))))", a, a, a, a))
		}
		_ = a0
	}
	return a
}

func (c *Ctx) heapGetSort(st *State, key, srt string) string {
	if st.param != nil {
		return c.paramVar(st, key, srt)
	}
	if a, ok := st.heap[key]; ok {
		return a
	}
	if a, ok := c.heap0[key]; ok {
		return a
	}
	a := c.fresh("H0_"+key, srt)
	c.heap0[key] = a
	c.heapSrt[key] = srt
	return a
}

func (c *Ctx) elemHeap(st *State, elem types.Type) (string, string) {
	es := c.sortOf(elem)
	key := "E:" + sanitize(types.TypeString(elem, func(p *types.Package) string { return p.Name() }))
	if c.heapTyp == nil {
		c.heapTyp = map[string]types.Type{}
	}
	c.heapTyp[key] = elem
	_, known := c.heap0[key]
	h := c.heapGetSort(st, key, fmt.Sprintf("(Array Int (Array Int %s))", es))
	if !known && st.param == nil {
		if h0, ok := c.heap0[key]; ok {
			// the entry heap holds no reference newer than the entry allocation counter: also inside slice elements
			a0 := c.heap0[allocKey]
			if a0 == "" {
				a0 = c.fresh("alloc0", "Int")
				c.heap0[allocKey] = a0
				c.heapSrt[allocKey] = "Int"
				c.defs = append(c.defs, fmt.Sprintf("(assert (>= %s 0))", a0), epochEntry(a0))
			}
			for _, rp := range c.refPaths("(select (select "+h0+" a_r) i_r)", elem, 0) {
				c.defs = append(c.defs, fmt.Sprintf("(assert (forall ((a_r Int) (i_r Int)) (! %s :pattern ((select (select %s a_r) i_r)))))", strings.ReplaceAll(rp, "$B", "(epochOf a_r)"), h0))
			}
		}
	}
	return key, h
}

// refPaths lists, for a value term of type t, the facts "this reference / slice inside the value was allocated no later
// than $B" (placeholder), descending into struct fields of repository types.
func (c *Ctx) refPaths(term string, t types.Type, depth int) []string {
	if depth > 3 || isDecimal(t) || isBuilder(t) {
		return nil
	}
	switch u := t.Underlying().(type) {
	case *types.Pointer, *types.Map:
		return []string{fmt.Sprintf("(<= %s $B)", term)}
	case *types.Slice:
		return []string{fmt.Sprintf("(and (<= (sl.arr %s) $B) (>= (sl.len %s) 0) (>= (sl.off %s) 0))", term, term, term)}
	case *types.Struct:
		name := c.sortOf(t)
		if name == "U" {
			return nil
		}
		var out []string
		for i := 0; i < u.NumFields(); i++ {
			out = append(out, c.refPaths(fmt.Sprintf("(%s.%s %s)", name, u.Field(i).Name(), term), u.Field(i).Type(), depth+1)...)
		}
		return out
	}
	return nil
}

// epochEntry / epochCall define epochOf for the objects that existed at entry and for those a call allocated.
func epochEntry(a0 string) string {
	return fmt.Sprintf("(assert (forall ((r Int)) (! (=> (<= r %s) (= (epochOf r) %s)) :pattern ((epochOf r)))))", a0, a0)
}

func epochCall(before, after string) string {
	return fmt.Sprintf("(forall ((r Int)) (! (=> (and (> r %s) (<= r %s)) (= (epochOf r) %s)) :pattern ((epochOf r))))", before, after, after)
}

// guardBound instantiates the "$B" placeholder of a refPaths fact for a container of the entry heap: the bound a0 applies
// only when the container (array / map reference guard) itself existed at entry.
func guardBound(rp, guard, a0 string) string {
	var out strings.Builder
	for {
		i := strings.Index(rp, "(<= ")
		if i < 0 {
			out.WriteString(rp)
			return out.String()
		}
		// find the matching close paren of this "(<= ..." term
		depth, j := 0, i
		for ; j < len(rp); j++ {
			if rp[j] == '(' {
				depth++
			} else if rp[j] == ')' {
				depth--
				if depth == 0 {
					break
				}
			}
		}
		term := rp[i : j+1]
		out.WriteString(rp[:i])
		if strings.HasSuffix(term, " $B)") {
			out.WriteString(fmt.Sprintf("(=> (<= %s %s) %s)", guard, a0, strings.ReplaceAll(term, "$B", a0)))
		} else {
			out.WriteString(term)
		}
		rp = rp[j+1:]
	}
}

// eltFrame states the frame of an element heap in terms of the accessor, so that facts stated with elt carry over.
func (c *Ctx) eltFrame(k, nh, old, bound string) string {
	name := "elt_" + k[2:]
	if !strings.HasPrefix(k, "E:") || !c.dts[name] {
		return ""
	}
	c.n++
	return fmt.Sprintf("(forall ((s_q%d Slice) (k_q%d Int)) (! (=> (<= (sl.arr s_q%d) %s) (= (%s %s s_q%d k_q%d) (%s %s s_q%d k_q%d))) :pattern ((%s %s s_q%d k_q%d))))",
		c.n, c.n, c.n, bound, name, nh, c.n, c.n, name, old, c.n, c.n, name, nh, c.n, c.n)
}

// seqBridges connects the two spellings of "element k of slice s": the accessor elt_T(heap, s, k) used by function
// contracts and code, and sqat(seq(s), k) used inside specdefs and lemmas over sequence parameters. Without it a lemma
// whose pattern mentions a[j] never fires on an element the code has read.
func (c *Ctx) seqBridges() string {
	var names []string
	for n := range c.eltSeq {
		names = append(names, n)
	}
	sort.Strings(names)
	var b strings.Builder
	for _, n := range names {
		sq := c.eltSeq[n]
		if !c.dts[sq[0]] {
			continue
		}
		fmt.Fprintf(&b, "(assert (forall ((e (Array Int (Array Int %s))) (s Slice) (k Int)) (! (= (%s e s k) (sqat_%s (mk-%s (select e (sl.arr s)) (sl.off s) (sl.len s)) k)) :pattern ((%s e s k)))))\n", sq[1], n, sq[0], sq[0], n)
	}
	return b.String()
}

func (c *Ctx) eltFn(elem types.Type) string {
	c.sortOf(types.NewSlice(elem))
	es := c.sortOf(elem)
	name := "elt_" + sanitize(types.TypeString(elem, func(p *types.Package) string { return p.Name() }))
	if c.eltSeq == nil {
		c.eltSeq = map[string][2]string{}
	}
	c.eltSeq[name] = [2]string{"Seq_" + sanitize(es), es}
	if !c.dts[name] {
		c.dts[name] = true
		c.dtDecls = append(c.dtDecls, fmt.Sprintf("(declare-fun %s ((Array Int (Array Int %s)) Slice Int) %s)", name, es, es))
		c.dtDecls = append(c.dtDecls, fmt.Sprintf("(assert (forall ((e (Array Int (Array Int %s))) (s Slice) (k Int)) (! (= (%s e s k) (select (select e (sl.arr s)) (+ (sl.off s) k))) :pattern ((%s e s k)))))", es, name, name))
	}
	return name
}

// ifaceTag returns the tag number and payload accessor of a concrete dynamic type.
func (c *Ctx) ifaceTag(t types.Type) (int, string) {
	c.sortOf(types.NewInterfaceType(nil, nil))
	key := types.TypeString(t, func(p *types.Package) string { return p.Path() })
	if c.ifTags == nil {
		c.ifTags = map[string]int{}
	}
	id, ok := c.ifTags[key]
	acc := "ifval_" + sanitize(types.TypeString(t, func(p *types.Package) string { return p.Name() }))
	if !ok {
		id = len(c.ifTags) + 1
		c.ifTags[key] = id
		c.dtDecls = append(c.dtDecls, fmt.Sprintf("(declare-fun %s (Iface) %s)", acc, c.sortOf(t)))
		box := "box_" + acc[len("ifval_"):]
		c.dtDecls = append(c.dtDecls, fmt.Sprintf("(declare-fun %s (%s) Iface)", box, c.sortOf(t)))
		c.dtDecls = append(c.dtDecls, fmt.Sprintf("(assert (forall ((x %s)) (! (and (= (iftag (%s x)) %d) (= (%s (%s x)) x)) :pattern ((%s x)))))", c.sortOf(t), box, id, acc, box, box))
	}
	return id, acc
}

// boxTerm: the interface value that holds v (a function of the dynamic type and the value, so that boxing the same
// value twice gives the same interface value).
func (c *Ctx) boxTerm(v Val) string {
	_, acc := c.ifaceTag(v.Typ)
	return fmt.Sprintf("(box_%s %s)", acc[len("ifval_"):], v.T)
}

func isSyncMap(t types.Type) bool {
	n, ok := t.(*types.Named)
	return ok && n.Obj().Pkg() != nil && n.Obj().Pkg().Path() == "sync" && n.Obj().Name() == "Map"
}

// syncMapHeaps: a sync.Map field is a ghost map from interface values to interface values, stored per owner object.
func (c *Ctx) syncMapHeaps(st *State, fieldKey string) (kd, kv, dom, val string) {
	c.sortOf(types.NewInterfaceType(nil, nil))
	kd, kv = "SMdom:"+fieldKey, "SMval:"+fieldKey
	dom = c.heapGetSort(st, kd, "(Array Int (Array Iface Bool))")
	val = c.heapGetSort(st, kv, "(Array Int (Array Iface Iface))")
	return
}

// globalConst: package-level variables are treated as immutable (true for the lookup tables of this code base; recorded as an assumption).
func (c *Ctx) globalConst(name string, t types.Type) string {
	if c.globals == nil {
		c.globals = map[string]string{}
	}
	if v, ok := c.globals[name]; ok {
		return v
	}
	v := c.fresh("global_"+name, c.sortOf(t))
	c.globals[name] = v
	// a package-level variable is a constant of the call: what it refers to existed at entry
	a0, ok := c.heap0[allocKey]
	if !ok {
		a0 = c.fresh("alloc0", "Int")
		c.heap0[allocKey] = a0
		c.heapSrt[allocKey] = "Int"
		c.defs = append(c.defs, fmt.Sprintf("(assert (>= %s 0))", a0), epochEntry(a0))
	}
	for _, rp := range c.refPaths(v, t, 0) {
		c.defs = append(c.defs, fmt.Sprintf("(assert %s)", strings.ReplaceAll(rp, "$B", a0)))
	}
	return v
}

func (c *Ctx) mapHeaps(st *State, m *types.Map) (kd, kv, dom, val string) {
	ks, vs := c.sortOf(m.Key()), c.sortOf(m.Elem())
	tn := sanitize(types.TypeString(m, func(p *types.Package) string { return p.Name() }))
	kd, kv = "Mdom:"+tn, "Mval:"+tn
	if c.heapTyp == nil {
		c.heapTyp = map[string]types.Type{}
	}
	c.heapTyp[kv] = m
	if _, seen := c.heapSrt[kd]; !seen && st.param == nil {
		d0 := c.heapGetSort(&State{heap: map[string]string{}}, kd, fmt.Sprintf("(Array Int (Array %s Bool))", ks))
		c.defs = append(c.defs, fmt.Sprintf("(assert (= (select %s 0) ((as const (Array %s Bool)) false)))", d0, ks))
	}
	_, valKnown := c.heap0[kv]
	dom = c.heapGetSort(st, kd, fmt.Sprintf("(Array Int (Array %s Bool))", ks))
	val = c.heapGetSort(st, kv, fmt.Sprintf("(Array Int (Array %s %s))", ks, vs))
	if !valKnown && st.param == nil {
		if v0, ok := c.heap0[kv]; ok {
			// references stored in maps of the entry heap were allocated before the call
			a0 := c.heap0[allocKey]
			if a0 == "" {
				a0 = c.fresh("alloc0", "Int")
				c.heap0[allocKey] = a0
				c.heapSrt[allocKey] = "Int"
				c.defs = append(c.defs, fmt.Sprintf("(assert (>= %s 0))", a0), epochEntry(a0))
			}
			for _, rp := range c.refPaths("(select (select "+v0+" m_r) k_r)", m.Elem(), 0) {
				c.defs = append(c.defs, fmt.Sprintf("(assert (forall ((m_r Int) (k_r %s)) (! %s :pattern ((select (select %s m_r) k_r)))))", ks, strings.ReplaceAll(rp, "$B", "(epochOf m_r)"), v0))
			}
		}
	}
	return
}

func (c *Ctx) mapLookup(st *State, m *types.Map, ref, key string) (string, string) {
	_, _, dom, val := c.mapHeaps(st, m)
	has := fmt.Sprintf("(select (select %s %s) %s)", dom, ref, key)
	v := fmt.Sprintf("(ite %s (select (select %s %s) %s) %s)", has, val, ref, key, c.zero(m.Elem()))
	return v, has
}

// access nested struct value by path starting at type t
func (c *Ctx) pathGet(base string, t types.Type, path []int) (string, types.Type) {
	for _, f := range path {
		st := t.Underlying().(*types.Struct)
		name := c.sortOf(t)
		base = fmt.Sprintf("(%s.%s %s)", name, st.Field(f).Name(), base)
		t = st.Field(f).Type()
	}
	return base, t
}

func (c *Ctx) pathSet(base string, t types.Type, path []int, nv string) string {
	if len(path) == 0 {
		return nv
	}
	st := t.Underlying().(*types.Struct)
	name := c.sortOf(t)
	var fs []string
	for i := 0; i < st.NumFields(); i++ {
		cur := fmt.Sprintf("(%s.%s %s)", name, st.Field(i).Name(), base)
		if i == path[0] {
			fs = append(fs, c.pathSet(cur, st.Field(i).Type(), path[1:], nv))
		} else {
			fs = append(fs, cur)
		}
	}
	return fmt.Sprintf("(mk-%s %s)", name, strings.Join(fs, " "))
}

// ---- frames ----

type iterInfo struct {
	key string
	mt  *types.Map
	ref string
	str string
}

type retInfo struct {
	st   *State
	vals []Val
}

type Frame struct {
	ctx             *Ctx
	fn              *ssa.Function
	fc              *FuncContract
	vals            map[ssa.Value]Val
	tuples          map[ssa.Value][]Val
	addrs           map[ssa.Value]Addr
	entry           *State
	rets            []retInfo
	top             bool
	depth           int
	locals          map[string][]*ssa.Alloc
	ptrParams       []string            // terms of pointer params
	writeSet        map[string][]string // heap key -> references (entry values) the function may write (from modifies)
	elemWrite       []string            // slices (entry values) whose elements may be written in place
	writeAll        bool                // sweep: effects unknown, every location is writable
	curProps        []string            // properties of the clause whose obligation is being generated
	refParams       []string            // all reference-like entry values (for freshness of allocations)
	specdefs        map[string]types.Type
	rawHavoc        []string
	fnModMaps       []modRef                        // maps the function may modify (entry values)
	fnModInner      []modInner                      // "o[*][*]": inner maps of o the function may modify
	curLoops        []*loopMod                      // loops (with modifies clauses) enclosing the call site of an inlined callee
	loopOf          map[*ssa.BasicBlock][]*loopMod  // enclosing loops (with modifies clauses) of each block
	callEntry       *State                          // inlined function literal: the state at this call (old() in its loop clauses)
	iterPfx         string                          // distinguishes the iterators of an inlined function literal from those of its caller
	closureLoops    bool                            // inlined function literal whose loops are annotated in the enclosing contract
	freeNames       map[string]ssa.Value            // inlined function literal: captured variables by name
	closures        map[ssa.Value]*ssa.MakeClosure  // closure values by SSA value
	closCells       map[*ssa.Alloc]*ssa.MakeClosure // locals holding a closure (f := func(){...})
	ptrCells        map[*ssa.Alloc]Addr             // locals that hold the address of a slice element / field (the p := &xs[i] idiom)
	inCommute       bool
	elemFrozenBelow string       // allocation bound below which no backing array may be written (inside a "modifies nothing" loop)
	pendingAddrArgs map[int]Addr // arguments of the call being dispatched that are addresses (for inlining)
	sortedUseBad    bool
	forcedKey       string // commutes check: the key the next map-range Next must yield
	commute         bool
	loopRangeIdx    map[int]*ssa.Alloc
	loopRangeOver   map[int]Val      // loop ordinal -> the slice value a slice-range loop iterates (evaluated once before the loop)
	loopIterInfo    map[int]iterInfo // loop ordinal -> iterator of a map range ("itermap" in loop clauses)
	loopIter        map[int]string   // loop ordinal -> heap key of the iterator its header advances (iterseen / iterpos without a number)
	loopHead        map[int]*State
	iterN           int
	iters           map[ssa.Value]iterInfo
	iterKeys        map[int]string
	fname           string
	ghost           map[string]Val // ghost parameters of the contract
	nLoops          int
}

func funcKey(fn *ssa.Function) string {
	if fn.Pkg != nil {
		return fn.Pkg.Pkg.Name() + "." + funcKey0(fn)
	}
	return funcKey0(fn)
}

func funcKey0(fn *ssa.Function) string {
	if recv := fn.Signature.Recv(); recv != nil {
		t := recv.Type()
		if p, ok := t.(*types.Pointer); ok {
			return "(*" + p.Elem().(*types.Named).Obj().Name() + ")." + fn.Name()
		}
		if n, ok := t.(*types.Named); ok {
			return "(" + n.Obj().Name() + ")." + fn.Name()
		}
	}
	return fn.Name()
}

func (fr *Frame) oblige(st *State, kind string, phi string, pos token.Pos) {
	c := fr.ctx
	if fr.inCommute && !strings.Contains(kind, ".commutes") {
		return // the body was already checked in the main pass; the order-independence run only compares final states
	}
	var b strings.Builder
	b.WriteString(prelude)
	for _, d := range c.dtDecls {
		b.WriteString(d + "\n")
	}
	b.WriteString(c.seqBridges())
	for _, d := range c.decls {
		b.WriteString(d + "\n")
	}
	for _, d := range c.defs {
		b.WriteString(d + "\n")
	}
	b.WriteString("(assert " + st.pc + ")\n")
	b.WriteString("(assert (not " + phi + "))\n(check-sat)\n")
	p := ""
	if pos.IsValid() {
		pp := c.prog.Fset.Position(pos)
		p = fmt.Sprintf("%s:%d", pp.Filename, pp.Line)
	}
	c.oblN++
	clause := kind
	if i := strings.Index(clause, "@"); i > 0 {
		clause = clause[:i]
	}
	c.obls = append(c.obls, Obligation{Name: fmt.Sprintf("%s#%s~%d", fr.fname, kind, c.oblN), Clause: fr.fname + "#" + clause, Func: fr.fname,
		Props: fr.curProps, MustFail: strings.Contains(kind, "MUST-FAIL"), Query: b.String(), Pos: p})
}

// setElemHeap installs a new element heap (one backing array changed) under a fresh name and states its frame in
// accessor form, so that facts written with elt(...) about other arrays carry over the update.
func (fr *Frame) setElemHeap(st *State, key string, elem types.Type, old, newTerm, changedRef string) {
	c := fr.ctx
	name := c.fresh("EH", c.heapSrt[key])
	fr.assume(st, fmt.Sprintf("(= %s %s)", name, newTerm))
	ef := c.eltFn(elem)
	c.n++
	sq, kq := fmt.Sprintf("s_q%d", c.n), fmt.Sprintf("k_q%d", c.n)
	fr.assumeQ(st, fmt.Sprintf("(forall ((%s Slice) (%s Int)) (! (=> (not (= (sl.arr %s) %s)) (= (%s %s %s %s) (%s %s %s %s))) :pattern ((%s %s %s %s))))",
		sq, kq, sq, changedRef, ef, name, sq, kq, ef, old, sq, kq, ef, name, sq, kq))
	if fr.fc != nil && fr.fc.ForwardFrames {
		// opt-in ("option forwardframes"): the same frame fact also fires on an element known in the old heap, so that a
		// witness found before an unrelated array was written is still a witness afterwards
		c.n++
		sq2, kq2 := fmt.Sprintf("s_q%d", c.n), fmt.Sprintf("k_q%d", c.n)
		fr.assumeQ(st, fmt.Sprintf("(forall ((%s Slice) (%s Int)) (! (=> (not (= (sl.arr %s) %s)) (= (%s %s %s %s) (%s %s %s %s))) :pattern ((%s %s %s %s))))",
			sq2, kq2, sq2, changedRef, ef, name, sq2, kq2, ef, old, sq2, kq2, ef, old, sq2, kq2))
	}
	st.heap[key] = name
}

// addrVal makes a contract-level stand-in for a pointer to a local / field / slice element: selecting a field of it reads
// the location; it is never nil. (Element and field pointers are not first-class values of the heap model.)
func (fr *Frame) addrVal(a Addr, t types.Type) Val {
	if fr.ctx.addrVals == nil {
		fr.ctx.addrVals = map[string]Addr{}
	}
	fr.ctx.n++
	name := fmt.Sprintf("@addr%d", fr.ctx.n)
	fr.ctx.addrVals[name] = a
	return Val{name, t}
}

// obligeAt names a safety/frame obligation by the source text of the expression it guards (stable under edits elsewhere).
func (fr *Frame) obligeAt(st *State, kind, want, phi string, pos token.Pos) {
	fr.oblige(st, kind+"["+fr.ctx.srcAt(pos, want)+"]", phi, pos)
}

func reqLabel(c Clause, k int) string {
	if c.Label != "" {
		return c.Label
	}
	return fmt.Sprint(k + 1)
}

// elemWritePerm: the backing array is fresh since entry, or the slice is named in modifies elems(...).
func (fr *Frame) elemWritePerm(a Addr) string {
	if fr.writeAll {
		return "true"
	}
	if fr.elemFrozenBelow != "" {
		return fmt.Sprintf("(> %s %s)", a.Ref, fr.elemFrozenBelow)
	}
	alts := []string{fmt.Sprintf("(> %s %s)", a.Ref, fr.allocTerm(fr.entry))}
	for _, w := range fr.elemWrite {
		alts = append(alts, fmt.Sprintf("(= %s (sl.arr %s))", a.Ref, w))
	}
	if len(alts) == 1 {
		return alts[0]
	}
	return "(or " + strings.Join(alts, " ") + ")"
}

// writePerm: the location (heap key, reference) may be written by this function: the object is fresh since entry or
// the location is named in the function's modifies clause.
func (fr *Frame) writePerm(key, ref string) string {
	if fr.writeAll {
		return "true"
	}
	alts := []string{fmt.Sprintf("(> %s %s)", ref, fr.allocTerm(fr.entry))}
	for _, w := range fr.writeSet[key] {
		alts = append(alts, fmt.Sprintf("(= %s %s)", ref, w))
	}
	if len(alts) == 1 {
		return alts[0]
	}
	return "(or " + strings.Join(alts, " ") + ")"
}

// assume records a fact that holds whenever execution reaches this point: a global assertion guarded by the
// current path condition (path conditions themselves contain branch conditions only, so that diamonds collapse).
func (fr *Frame) assume(st *State, phi string) {
	if phi == "true" {
		return
	}
	if st.pc == "true" {
		fr.ctx.defs = append(fr.ctx.defs, fmt.Sprintf("(assert %s)", phi))
		return
	}
	if os.Getenv("GOVC_GUARD_INSIDE") != "" {
		if g, ok := guardForall(st.pc, phi); ok {
			fr.ctx.defs = append(fr.ctx.defs, fmt.Sprintf("(assert %s)", g))
			return
		}
	}
	fr.ctx.defs = append(fr.ctx.defs, fmt.Sprintf("(assert (=> %s %s))", st.pc, phi))
}

// guardForall moves a path condition inside a top-level quantifier with patterns: (=> pc (forall xs (! body :pattern ..)))
// becomes (forall xs (! (=> pc body) :pattern ..)). The two are equivalent (pc does not mention the bound variables);
// the second keeps the quantifier at top level, where the solvers instantiate it like any other axiom instead of
// treating it as a delayed, higher-generation sub-formula.
func guardForall(pc, phi string) (string, bool) {
	if !strings.HasPrefix(phi, "(forall (") || !strings.HasSuffix(phi, "))") {
		return "", false
	}
	// bindings: from index 8 ("(forall " is 8 chars) to its matching paren
	depth, i := 0, 8
	for ; i < len(phi); i++ {
		if phi[i] == '(' {
			depth++
		} else if phi[i] == ')' {
			depth--
			if depth == 0 {
				break
			}
		}
	}
	binds := phi[8 : i+1]
	rest := strings.TrimSpace(phi[i+1 : len(phi)-1]) // "(! body :pattern ...)"
	if !strings.HasPrefix(rest, "(! ") || !strings.HasSuffix(rest, ")") {
		return "", false
	}
	inner := rest[3 : len(rest)-1]
	// body = first balanced term of inner
	j := 0
	if inner[0] == '(' {
		depth = 0
		for ; j < len(inner); j++ {
			if inner[j] == '(' {
				depth++
			} else if inner[j] == ')' {
				depth--
				if depth == 0 {
					break
				}
			}
		}
		j++
	} else {
		j = strings.Index(inner, " ")
		if j < 0 {
			return "", false
		}
	}
	body, attrs := inner[:j], inner[j:]
	if !strings.HasPrefix(strings.TrimSpace(attrs), ":pattern") {
		return "", false
	}
	return fmt.Sprintf("(forall %s (! (=> %s %s)%s))", binds, pc, body, attrs), true
}

// assumeQ: like assume, for a quantified frame fact: the path condition goes inside the quantifier, which stays at top
// level (a quantifier nested under an implication is instantiated late by the solvers; frame facts are needed early).
func (fr *Frame) assumeQ(st *State, phi string) {
	if st.pc != "true" {
		if g, ok := guardForall(st.pc, phi); ok {
			fr.ctx.defs = append(fr.ctx.defs, fmt.Sprintf("(assert %s)", g))
			return
		}
	}
	fr.assume(st, phi)
}

func (fr *Frame) branch(st *State, cond string) {
	if st.pc == "true" {
		st.pc = cond
		return
	}
	st.pc = fmt.Sprintf("(and %s %s)", st.pc, cond)
}

// collapse merges path conditions of the form (and P C) / (and P (not C)) back to P.
func collapse(pcs []string) (string, bool) {
	cur := append([]string{}, pcs...)
	for len(cur) > 1 {
		found := false
		for i := 0; i < len(cur) && !found; i++ {
			for j := 0; j < len(cur) && !found; j++ {
				if i == j {
					continue
				}
				a, b := cur[i], cur[j]
				if strings.HasPrefix(a, "(and ") && strings.HasPrefix(b, "(and ") && strings.HasSuffix(b, "))") {
					// a = (and P C), b = (and P (not C))
					if strings.HasSuffix(b, " (not "+a[strings.LastIndex(a[:len(a)-1], " ")+1:len(a)-1]+"))") || true {
						pa, ca, ok1 := splitAnd(a)
						pb, cb, ok2 := splitAnd(b)
						if ok1 && ok2 && pa == pb && cb == "(not "+ca+")" {
							var rest []string
							for k := range cur {
								if k != i && k != j {
									rest = append(rest, cur[k])
								}
							}
							cur = append(rest, pa)
							found = true
						}
					}
				} else if b == "(not "+a+")" {
					// top-level branch on pc "true"
					var rest []string
					for k := range cur {
						if k != i && k != j {
							rest = append(rest, cur[k])
						}
					}
					cur = append(rest, "true")
					found = true
				}
			}
		}
		if !found {
			return "", false
		}
	}
	return cur[0], true
}

// splitAnd splits "(and P C)" into P and C (C is the last top-level argument).
func splitAnd(s string) (string, string, bool) {
	if !strings.HasPrefix(s, "(and ") || !strings.HasSuffix(s, ")") {
		return "", "", false
	}
	body := s[5 : len(s)-1]
	depth := 0
	last := -1
	for i := 0; i < len(body); i++ {
		switch body[i] {
		case '(':
			depth++
		case ')':
			depth--
		case ' ':
			if depth == 0 {
				last = i
			}
		}
	}
	if last < 0 {
		return "", "", false
	}
	return body[:last], body[last+1:], true
}

func (fr *Frame) namePC(st *State, hint string) {
	c := fr.ctx
	n := c.fresh("pc_"+hint, "Bool")
	c.defs = append(c.defs, fmt.Sprintf("(assert (= %s %s))", n, st.pc))
	st.pc = n
}

func (fr *Frame) val(v ssa.Value) Val {
	if x, ok := fr.vals[v]; ok {
		return x
	}
	c := fr.ctx
	switch k := v.(type) {
	case *ssa.Const:
		t := k.Type()
		if k.Value == nil {
			return Val{c.zero(t), t}
		}
		switch k.Value.Kind() {
		case constant.Bool:
			if constant.BoolVal(k.Value) {
				return Val{"true", t}
			}
			return Val{"false", t}
		case constant.Int:
			n, _ := constant.Int64Val(k.Value)
			return Val{intLit(n), t}
		case constant.String:
			return Val{c.strlit(constant.StringVal(k.Value)), t}
		}
		return Val{c.fresh("const", c.sortOf(t)), t}
	case *ssa.Parameter:
		panic("parameter without value: " + k.Name())
	case *ssa.Global:
		return Val{c.fresh("global_"+k.Name(), "Int"), k.Type()}
	case *ssa.Function:
		return Val{c.fresh("fn", "U"), k.Type()}
	case *ssa.Builtin:
		return Val{c.fresh("builtin", "U"), k.Type()}
	}
	// opaque
	c.note("%s: opaque value %s (%T)", fr.fname, v.Name(), v)
	x := Val{c.fresh("opaque_"+v.Name(), c.sortOf(v.Type())), v.Type()}
	fr.vals[v] = x
	return x
}

func (fr *Frame) addrOf(st *State, v ssa.Value) (Addr, bool) {
	if a, ok := fr.addrs[v]; ok {
		return a, true
	}
	return Addr{}, false
}

func (fr *Frame) load(st *State, a Addr, pos token.Pos) Val {
	v := fr.load0(st, a, pos)
	if v.Typ != nil && a.Local == nil {
		for _, f := range fr.ctx.typeInv(v.T, v.Typ, 0) {
			fr.assume(st, f)
		}
	}
	bound := fr.allocTerm(st)
	if a.Local == nil && !a.Elem && a.Base != nil {
		if key, _ := fr.ctx.heapKey(a.Base, a.Path[0]); true {
			if _, written := st.heap[key]; !written {
				// the field still holds its entry value - if the object existed at entry; a field of an object allocated
				// since (by a callee) holds what the callee stored there, which may be newer than the entry bound
				fr.allocTerm(fr.entry)
				bound = fmt.Sprintf("(epochOf %s)", a.Ref)
			}
		}
	}
	if v.Typ != nil && isRefType(v.Typ) && a.Local == nil {
		fr.assume(st, fmt.Sprintf("(<= %s %s)", v.T, bound))
	}
	if v.Typ != nil && a.Local == nil {
		if _, ok := v.Typ.Underlying().(*types.Slice); ok {
			fr.assume(st, fmt.Sprintf("(and (<= (sl.arr %s) %s) (>= (sl.len %s) 0) (>= (sl.off %s) 0))", v.T, bound, v.T, v.T))
		}
	}
	return v
}

func (fr *Frame) load0(st *State, a Addr, pos token.Pos) Val {
	c := fr.ctx
	if a.Elem {
		_, arr := c.elemHeap(st, a.Root)
		base := fmt.Sprintf("(select (select %s %s) %s)", arr, a.Ref, a.Idx)
		if a.Sl != "" {
			base = fmt.Sprintf("(%s %s %s %s)", c.eltFn(a.Root), arr, a.Sl, a.RelIx)
		}
		t, ty := c.pathGet(base, a.Root, a.Path)
		return Val{t, ty}
	}
	if a.Local != nil {
		ty := c.typeAt(a.Root, a.Path)
		return Val{c.readCell(st, a.Local, ty, a.Path), ty}
	}
	fr.obligeAt(st, "safety.nil", "sel", fmt.Sprintf("(not (= %s 0))", a.Ref), pos)
	key, ft := c.heapKey(a.Base, a.Path[0])
	arr := c.heapGet(st, key, ft)
	t, ty := c.pathGet(fmt.Sprintf("(select %s %s)", arr, a.Ref), ft, a.Path[1:])
	return Val{t, ty}
}

func (fr *Frame) store(st *State, a Addr, v Val, pos token.Pos) {
	c := fr.ctx
	if a.Elem {
		key, arr := c.elemHeap(st, a.Root)
		fr.obligeAt(st, "frame.write_elem", "index", fr.elemWritePerm(a), pos)
		inner := fmt.Sprintf("(select %s %s)", arr, a.Ref)
		old := fmt.Sprintf("(select %s %s)", inner, a.Idx)
		nv := c.pathSet(old, a.Root, a.Path, v.T)
		fr.setElemHeap(st, key, a.Root, arr, fmt.Sprintf("(store %s %s (store %s %s %s))", arr, a.Ref, inner, a.Idx, nv), a.Ref)
		{
			// same array, other index: unchanged (accessor form)
			name := st.heap[key]
			ef := c.eltFn(a.Root)
			c.n++
			sq, kq := fmt.Sprintf("s_q%d", c.n), fmt.Sprintf("k_q%d", c.n)
			fr.assume(st, fmt.Sprintf("(forall ((%s Slice) (%s Int)) (! (=> (and (= (sl.arr %s) %s) (not (= (+ (sl.off %s) %s) %s))) (= (%s %s %s %s) (%s %s %s %s))) :pattern ((%s %s %s %s))))",
				sq, kq, sq, a.Ref, sq, kq, a.Idx, ef, name, sq, kq, ef, arr, sq, kq, ef, name, sq, kq))
		}
		return
	}
	if a.Local != nil {
		c.writeCell(st, a.Local, c.typeAt(a.Root, a.Path), a.Path, v.T)
		return
	}
	fr.obligeAt(st, "safety.nil", "sel", fmt.Sprintf("(not (= %s 0))", a.Ref), pos)
	key, ft := c.heapKey(a.Base, a.Path[0])
	if !fr.writeAll {
		fr.obligeAt(st, "frame.write", "sel", fr.writePerm(key, a.Ref), pos)
	}
	arr := c.heapGet(st, key, ft)
	old := fmt.Sprintf("(select %s %s)", arr, a.Ref)
	nv := c.pathSet(old, ft, a.Path[1:], v.T)
	st.heap[key] = fmt.Sprintf("(store %s %s %s)", arr, a.Ref, nv)
}

// resolveModPath resolves "a.b.c" against the parameters of fn: returns the struct type owning the last field and its index.
func resolveModPath(fn *ssa.Function, path string) (*types.Named, int, bool) {
	parts := strings.Split(path, ".")
	var t types.Type
	for _, p := range fn.Params {
		if p.Name() == parts[0] {
			t = p.Type()
		}
	}
	if t == nil && fn.Pkg != nil {
		// a package-level variable (e.g. the token cache singleton)
		if o := fn.Pkg.Pkg.Scope().Lookup(parts[0]); o != nil {
			if v, ok := o.(*types.Var); ok {
				t = v.Type()
			}
		}
	}
	if t == nil {
		return nil, 0, false
	}
	for i := 1; i < len(parts); i++ {
		if pt, ok := t.Underlying().(*types.Pointer); ok {
			t = pt.Elem()
		}
		n, _ := t.(*types.Named)
		st, ok := t.Underlying().(*types.Struct)
		if !ok {
			return nil, 0, false
		}
		found := false
		for f := 0; f < st.NumFields(); f++ {
			if st.Field(f).Name() == parts[i] {
				if i == len(parts)-1 {
					return n, f, n != nil
				}
				t = st.Field(f).Type()
				found = true
				break
			}
		}
		if !found {
			return nil, 0, false
		}
	}
	return nil, 0, false
}

const allocKey = "$alloc"

func (fr *Frame) allocTerm(st *State) string {
	c := fr.ctx
	if a, ok := st.heap[allocKey]; ok {
		return a
	}
	if a, ok := c.heap0[allocKey]; ok {
		return a
	}
	a := c.fresh("alloc0", "Int")
	c.heap0[allocKey] = a
	c.heapSrt[allocKey] = "Int"
	c.defs = append(c.defs, fmt.Sprintf("(assert (>= %s 0))", a), epochEntry(a))
	return a
}

// newRef allocates a fresh reference: greater than every reference allocated so far.
func (fr *Frame) newRef(st *State, hint string) string {
	c := fr.ctx
	cur := fr.allocTerm(st)
	r := c.fresh(hint, "Int")
	fr.assume(st, fmt.Sprintf("(and (> %s %s) (= (epochOf %s) %s))", r, cur, r, r))
	st.heap[allocKey] = r
	return r
}

// typeInv returns range facts for a value of Go type t (unsigned / sized integers, nested in repo structs).
func (c *Ctx) typeInv(term string, t types.Type, depth int) []string {
	var out []string
	if isDecimal(t) || isBuilder(t) {
		return nil
	}
	switch u := t.Underlying().(type) {
	case *types.Basic:
		switch u.Kind() {
		case types.Uint8:
			out = append(out, fmt.Sprintf("(and (<= 0 %s) (< %s 256))", term, term))
		case types.Uint16:
			out = append(out, fmt.Sprintf("(and (<= 0 %s) (< %s 65536))", term, term))
		case types.Uint32:
			out = append(out, fmt.Sprintf("(and (<= 0 %s) (< %s 4294967296))", term, term))
		case types.Uint, types.Uint64, types.Uintptr:
			out = append(out, fmt.Sprintf("(<= 0 %s)", term))
		case types.Int32:
			out = append(out, fmt.Sprintf("(and (<= (- 2147483648) %s) (< %s 2147483648))", term, term))
		}
	case *types.Struct:
		if depth < 3 && c.sortOf(t) != "U" {
			name := c.sortOf(t)
			for i := 0; i < u.NumFields(); i++ {
				out = append(out, c.typeInv(fmt.Sprintf("(%s.%s %s)", name, u.Field(i).Name(), term), u.Field(i).Type(), depth+1)...)
			}
		}
	}
	return out
}

// narrower: converting from 'from' to 'to' can change the value.
func narrower(to, from types.Type) bool {
	tb, ok1 := to.Underlying().(*types.Basic)
	fb, ok2 := from.Underlying().(*types.Basic)
	if !ok1 || !ok2 {
		return false
	}
	size := func(b *types.Basic) (bits int, unsigned bool) {
		switch b.Kind() {
		case types.Int8:
			return 8, false
		case types.Uint8:
			return 8, true
		case types.Int16:
			return 16, false
		case types.Uint16:
			return 16, true
		case types.Int32:
			return 32, false
		case types.Uint32:
			return 32, true
		case types.Uint, types.Uint64, types.Uintptr:
			return 64, true
		}
		return 64, false
	}
	tbits, tu := size(tb)
	fbits, fu := size(fb)
	if tu == fu {
		return tbits < fbits
	}
	if tu { // signed -> unsigned: negative values change
		return true
	}
	return tbits <= fbits // unsigned -> signed of same or smaller width
}

func isRefType(t types.Type) bool {
	switch t.Underlying().(type) {
	case *types.Pointer, *types.Map:
		return true
	}
	return false
}

func wrapUnsigned(t types.Type, term string) string {
	if b, ok := t.Underlying().(*types.Basic); ok && b.Info()&types.IsUnsigned != 0 {
		switch b.Kind() {
		case types.Uint8:
			return fmt.Sprintf("(mod %s 256)", term)
		case types.Uint16:
			return fmt.Sprintf("(mod %s 65536)", term)
		case types.Uint32:
			return fmt.Sprintf("(mod %s 4294967296)", term)
		}
	}
	return term
}

// ---- main interpreter ----

type edge struct {
	from *ssa.BasicBlock
	st   *State
}

func (fr *Frame) run(st0 *State) {
	fn := fr.fn
	c := fr.ctx
	// back edges
	isBack := func(from, to *ssa.BasicBlock) bool { return to.Dominates(from) }
	headers := map[*ssa.BasicBlock]bool{}
	for _, b := range fn.Blocks {
		for _, s := range b.Succs {
			if isBack(b, s) {
				headers[s] = true
			}
		}
	}
	// loop ordinals in block order
	var hs []*ssa.BasicBlock
	for _, b := range fn.Blocks {
		if headers[b] {
			hs = append(hs, b)
		}
	}
	// order headers by source position of the first instruction with a position
	posOf := func(b *ssa.BasicBlock) token.Pos {
		for _, bb := range append([]*ssa.BasicBlock{b}, b.Succs...) {
			for _, in := range bb.Instrs {
				if in.Pos().IsValid() {
					return in.Pos()
				}
			}
		}
		return token.NoPos
	}
	sort.SliceStable(hs, func(i, j int) bool { return posOf(hs[i]) < posOf(hs[j]) })
	ordinal := map[*ssa.BasicBlock]int{}
	for i, h := range hs {
		ordinal[h] = i + 1
	}
	fr.nLoops = len(hs)
	if len(hs) > 0 && !fr.top && !fr.closureLoops {
		panic(fmt.Sprintf("%s: cannot inline function with loops", funcKey(fn)))
	}
	// reverse postorder ignoring back edges
	var order []*ssa.BasicBlock
	seen := map[*ssa.BasicBlock]bool{}
	var dfs func(b *ssa.BasicBlock)
	dfs = func(b *ssa.BasicBlock) {
		seen[b] = true
		for _, s := range b.Succs {
			if !seen[s] && !isBack(b, s) {
				dfs(s)
			}
		}
		order = append(order, b)
	}
	dfs(fn.Blocks[0])
	for i, j := 0, len(order)-1; i < j; i, j = i+1, j-1 {
		order[i], order[j] = order[j], order[i]
	}
	incoming := map[*ssa.BasicBlock][]edge{}
	incoming[fn.Blocks[0]] = []edge{{nil, st0}}
	type loopInfo struct {
		variant0 string
		ord      int
	}
	loops := map[*ssa.BasicBlock]*loopInfo{}

	for _, b := range order {
		ins := incoming[b]
		if len(ins) == 0 {
			continue
		}
		st := fr.merge(ins, b)
		if headers[b] {
			ord := ordinal[b]
			li := &loopInfo{ord: ord}
			if fr.loopRangeIdx == nil {
				fr.loopRangeIdx = map[int]*ssa.Alloc{}
			}
			if fr.loopIter == nil {
				fr.loopIter = map[int]string{}
			}
			for _, in := range b.Instrs {
				if u, ok := in.(*ssa.UnOp); ok && u.Op == token.MUL {
					if a, ok := u.X.(*ssa.Alloc); ok && a.Comment == "rangeindex" {
						fr.loopRangeIdx[ord] = a
					}
				}
				if cmp, ok := in.(*ssa.BinOp); ok && cmp.Op == token.LSS {
					if lc, isCall := cmp.Y.(*ssa.Call); isCall {
						if bi, isB := lc.Call.Value.(*ssa.Builtin); isB && bi.Name() == "len" && len(lc.Call.Args) == 1 {
							if sv, known := fr.vals[lc.Call.Args[0]]; known {
								if fr.loopRangeOver == nil {
									fr.loopRangeOver = map[int]Val{}
								}
								fr.loopRangeOver[ord] = sv // "rangeover" in the clauses of this loop: the slice being ranged
							}
						}
					}
				}
				if nx, ok := in.(*ssa.Next); ok {
					if it, ok := fr.iters[nx.Iter]; ok {
						fr.loopIter[ord] = it.key
						if fr.loopIterInfo == nil {
							fr.loopIterInfo = map[int]iterInfo{}
						}
						fr.loopIterInfo[ord] = it
					}
				}
			}
			loops[b] = li
			// invariant on entry
			if fr.fc != nil {
				for k, inv := range fr.fc.LoopInv[ord] {
					phi := fr.evalClause(inv.Src, &Env{fr: fr, st: st, old: fr.oldState(), loopOrd: ord, binds: fr.ghost})
					fr.oblige(st, fmt.Sprintf("loop%d.inv%d.entry", ord, k+1), phi, posOf(b))
				}
			}
			// havoc
			preState := st.clone()
			preAlloc := fr.allocTerm(st)
			body := naturalLoop(b, isBack)
			cells, keys := fr.modifiedIn(body)
			for _, a := range cells {
				mine := map[cellKey]bool{}
				for k := range st.cells {
					if k.a == a {
						mine[k] = true
					}
				}
				for _, k := range sortedCellKeys(mine) {
					st.cells[k] = c.fresh("hv_"+a.Comment, c.sortOf(c.typeAtStr(a.Type().(*types.Pointer).Elem(), k.path)))
				}
			}
			for _, key := range keys {
				entryArr := c.heapGet(fr.entry, key, nil)
				na := c.fresh("hvH_"+key, c.heapSrt[key])
				// frame through the loop: only locations the function may write (modifies, or objects fresh since entry) can differ from entry
				if !fr.writeAll {
					c.defs = append(c.defs, fmt.Sprintf("(assert (forall ((r Int)) (! (=> (not %s) (= (select %s r) (select %s r))) :pattern ((select %s r)))))", fr.writePerm(key, "r"), na, entryArr, na))
				}
				st.heap[key] = na
			}
			if fr.allocatesIn(body, 0) {
				before := fr.allocTerm(st)
				na := c.fresh("hvAlloc", "Int")
				fr.assume(st, fmt.Sprintf("(>= %s %s)", na, before))
				st.heap[allocKey] = na
			}
			// every reference held in a field the loop may have written was allocated no later than now (at the loop head);
			// without this a field value first read after a call in the body would only be known to precede that call's return
			for _, key := range keys {
				et := c.heapTyp[key]
				if et == nil {
					continue
				}
				for _, rp := range c.refPaths(fmt.Sprintf("(select %s r_h)", st.heap[key]), et, 0) {
					fr.assume(st, fmt.Sprintf("(forall ((r_h Int)) (! %s :pattern ((select %s r_h))))", strings.ReplaceAll(rp, "$B", fr.allocTerm(st)), st.heap[key]))
				}
			}
			for _, a := range cells {
				if t, ok := st.cells[cellKey{a, ""}]; ok {
					et := a.Type().(*types.Pointer).Elem()
					if isRefType(et) {
						fr.assume(st, fmt.Sprintf("(<= %s %s)", t, fr.allocTerm(st)))
					} else if _, ok := et.Underlying().(*types.Slice); ok {
						fr.assume(st, fmt.Sprintf("(and (<= (sl.arr %s) %s) (>= (sl.len %s) 0) (>= (sl.off %s) 0))", t, fr.allocTerm(st), t, t))
					}
				}
			}
			var lm *loopMod
			if fr.fc != nil && (len(fr.fc.LoopMods[ord]) > 0 || fr.fc.LoopModNone[ord]) {
				lm = &loopMod{alloc: preAlloc, noElems: fr.fc.LoopModNone[ord]}
				lm.refs, lm.inner = fr.evalModMaps(fr.fc.LoopMods[ord], preState, fr.ghost, false)
				for blk := range body {
					fr.loopOf[blk] = append(fr.loopOf[blk], lm)
				}
			}
			// built-in invariant of go/ssa's slice-range loops: -1 <= rangeindex <= len-1 (len is evaluated once, before the loop)
			if ra, ok := fr.loopRangeIdx[ord]; ok {
				for _, in := range b.Instrs {
					if cmp, ok := in.(*ssa.BinOp); ok && cmp.Op == token.LSS {
						if lc, isCall := cmp.Y.(*ssa.Call); isCall {
							if bi, isB := lc.Call.Value.(*ssa.Builtin); isB && bi.Name() == "len" && len(lc.Call.Args) == 1 {
								if sv, known := fr.vals[lc.Call.Args[0]]; known {
									if fr.loopRangeOver == nil {
										fr.loopRangeOver = map[int]Val{}
									}
									fr.loopRangeOver[ord] = sv // "rangeover" in the clauses of this loop: the slice being ranged
								}
							}
						}
						if lenv, ok := fr.vals[cmp.Y]; ok {
							ri := c.readCell(st, ra, types.Typ[types.Int], nil)
							fr.assume(st, fmt.Sprintf("(and (<= (- 1) %s) (<= %s (- %s 1)))", ri, ri, lenv.T))
						}
					}
				}
			}
			{
				// maps and backing arrays that the loop may change: everything that existed at the bound and is not
				// covered by the write permission keeps the value it had when the loop was entered
				seenK := map[string]bool{}
				var hk []string
				for _, k := range fr.rawHavoc {
					if !seenK[k] {
						seenK[k] = true
						hk = append(hk, k)
					}
				}
				sort.Strings(hk)
				for _, k := range hk {
					if strings.HasPrefix(k, "IT") || strings.HasPrefix(k, "SM") {
						st.heap[k] = c.fresh("hvIt", c.heapSrt[k])
						continue
					}
					if fr.writeAll {
						st.heap[k] = c.fresh("hvR", c.heapSrt[k])
						continue
					}
					if lm != nil && !strings.HasPrefix(k, "E:") {
						fr.havocHeapKey(st, k, preAlloc, lm.refs, lm.inner, nil, "hvR")
					} else if lm != nil && lm.noElems {
						// "loop N modifies nothing": every backing array that existed at the loop head keeps its elements
						// (writes inside the loop are held to that: elemWritePerm)
						fr.havocHeapKey(st, k, preAlloc, nil, nil, nil, "hvR")
					} else {
						var arrs []string
						for _, w := range fr.elemWrite {
							arrs = append(arrs, fmt.Sprintf("(sl.arr %s)", w))
						}
						fr.havocHeapKey(st, k, fr.allocTerm(fr.entry), fr.fnModMaps, fr.fnModInner, arrs, "hvR")
					}
				}
				// whatever the loop stored into those arrays and maps was allocated no later than now (at the loop head)
				for _, k := range hk {
					ty := c.heapTyp[k]
					if ty == nil {
						continue
					}
					if strings.HasPrefix(k, "E:") {
						for _, rp := range c.refPaths(fmt.Sprintf("(select (select %s a_h) i_h)", st.heap[k]), ty, 0) {
							fr.assume(st, fmt.Sprintf("(forall ((a_h Int) (i_h Int)) (! %s :pattern ((select (select %s a_h) i_h))))", strings.ReplaceAll(rp, "$B", fr.allocTerm(st)), st.heap[k]))
						}
						if ef := c.eltFn(ty); ef != "" && c.dts["elt_"+k[2:]] {
							for _, rp := range c.refPaths(fmt.Sprintf("(%s %s s_h i_h)", ef, st.heap[k]), ty, 0) {
								fr.assume(st, fmt.Sprintf("(forall ((s_h Slice) (i_h Int)) (! %s :pattern ((%s %s s_h i_h))))", strings.ReplaceAll(rp, "$B", fr.allocTerm(st)), ef, st.heap[k]))
							}
						}
					} else if mt, isM := ty.(*types.Map); isM && strings.HasPrefix(k, "Mval:") {
						for _, rp := range c.refPaths(fmt.Sprintf("(select (select %s m_h) k_h)", st.heap[k]), mt.Elem(), 0) {
							fr.assume(st, fmt.Sprintf("(forall ((m_h Int) (k_h %s)) (! %s :pattern ((select (select %s m_h) k_h))))", c.sortOf(mt.Key()), strings.ReplaceAll(rp, "$B", fr.allocTerm(st)), st.heap[k]))
						}
					}
				}
			}
			fr.rawHavoc = nil
			if fr.fc != nil {
				for _, inv := range fr.fc.LoopInv[ord] {
					fr.assume(st, fr.evalClause(inv.Src, &Env{fr: fr, st: st, old: fr.oldState(), loopOrd: ord, binds: fr.ghost}))
				}
				if d, ok := fr.fc.LoopDec[ord]; ok && !strings.HasPrefix(d, "*") {
					v := fr.evalExpr(d, &Env{fr: fr, st: st, old: fr.oldState(), loopOrd: ord, binds: fr.ghost})
					n := c.fresh("variant", "Int")
					c.defs = append(c.defs, fmt.Sprintf("(assert (=> %s (= %s %s)))", st.pc, n, v.T))
					li.variant0 = n
				}
			}
			if fr.fc != nil && len(fr.fc.LoopInv[ord]) > 0 && fr.top {
				// vacuity canary: the assumed invariants must be satisfiable at the loop head
				fr.oblige(st, fmt.Sprintf("canary.loop%d_false(MUST-FAIL)", ord), "false", posOf(b))
			}
			if fr.fc != nil && fr.fc.Exhaustive[ord] && (fr.top || fr.closureLoops) {
				// structural: control leaves the loop only from its header (decided on the control-flow graph)
				body := naturalLoop(b, isBack)
				verdict := "true"
				for blk := range body {
					if blk == b {
						continue
					}
					for _, s2 := range blk.Succs {
						if !body[s2] {
							verdict = "false"
						}
					}
					if len(blk.Succs) == 0 {
						verdict = "false"
					}
				}
				// a return inside the loop body is a block outside the natural loop reached from a non-header block: covered above
				fr.oblige(st, fmt.Sprintf("loop%d.exhaustive", ord), verdict, posOf(b))
			}
			fr.namePC(st, fmt.Sprintf("loop%d", ord))
			fr.loopHead[ord] = st.clone()
			if fr.commute && (fr.top || fr.closureLoops) {
				if why, skip := fr.fc.NoCommute[ord]; skip {
					c.note("%s: loop %d: order-independence not checked (%s)", fr.fname, ord, why)
				} else {
					fr.checkCommutes(b, ord, st, isBack)
				}
			}
		}
		// execute
		fr.elemFrozenBelow = ""
		for _, l := range fr.loopOf[b] {
			if l.noElems {
				fr.elemFrozenBelow = l.alloc // inside a loop that modifies nothing: only arrays allocated in the loop may be written
			}
		}
		alive := true
		for _, in := range b.Instrs {
			if !fr.step(st, in) {
				alive = false
				break
			}
		}
		if !alive {
			continue
		}
		// terminator
		last := b.Instrs[len(b.Instrs)-1]
		send := func(to *ssa.BasicBlock, s2 *State) {
			if isBack(b, to) {
				li := loops[to]
				if fr.fc != nil && li != nil {
					for k, inv := range fr.fc.LoopInv[li.ord] {
						phi := fr.evalClause(inv.Src, &Env{fr: fr, st: s2, old: fr.oldState(), loopOrd: li.ord, binds: fr.ghost})
						fr.oblige(s2, fmt.Sprintf("loop%d.inv%d.preserve@b%d", li.ord, k+1, b.Index), phi, last.Pos())
					}
					if d, ok := fr.fc.LoopDec[li.ord]; ok && strings.HasPrefix(d, "*") {
						c.note("%s: loop %d: termination is not proved (declared 'decreases *')", fr.fname, li.ord)
					} else if ok {
						v := fr.evalExpr(d, &Env{fr: fr, st: s2, old: fr.oldState(), loopOrd: li.ord, binds: fr.ghost})
						fr.oblige(s2, fmt.Sprintf("loop%d.variant@b%d", li.ord, b.Index), fmt.Sprintf("(and (< %s %s) (>= %s 0))", v.T, li.variant0, li.variant0), last.Pos())
					} else if _, isSliceRange := fr.loopRangeIdx[li.ord]; !hasNext(to) && !fr.fc.Auto && !isSliceRange {
						fr.oblige(s2, fmt.Sprintf("loop%d.variant.missing", li.ord), "false", last.Pos())
					}
				}
				return
			}
			incoming[to] = append(incoming[to], edge{b, s2})
		}
		switch t := last.(type) {
		case *ssa.If:
			cv := fr.val(t.Cond)
			s1 := st.clone()
			fr.branch(s1, cv.T)
			s2 := st.clone()
			fr.branch(s2, fmt.Sprintf("(not %s)", cv.T))
			send(b.Succs[0], s1)
			send(b.Succs[1], s2)
		case *ssa.Jump:
			send(b.Succs[0], st)
		case *ssa.Return:
			var vs []Val
			for _, r := range t.Results {
				vs = append(vs, fr.val(r))
			}
			fr.rets = append(fr.rets, retInfo{st, vs})
		case *ssa.Panic:
		default:
			panic(fmt.Sprintf("unknown terminator %T", last))
		}
	}
}

// allocatesIn: some instruction of the blocks may allocate (directly, or through a callee that is not declared
// effects none / noalloc). Used to keep the allocation counter through loops that do not allocate.
func (fr *Frame) allocatesIn(body map[*ssa.BasicBlock]bool, depth int) bool {
	c := fr.ctx
	for b := range body {
		for _, in := range b.Instrs {
			switch x := in.(type) {
			case *ssa.Alloc:
				if _, isArr := x.Type().(*types.Pointer).Elem().Underlying().(*types.Array); isArr || x.Heap {
					return true
				}
			case *ssa.MakeMap, *ssa.MakeSlice, *ssa.MakeChan:
				return true
			case *ssa.Convert:
				if _, ok := x.Type().Underlying().(*types.Slice); ok {
					return true
				}
			case *ssa.Call:
				if bi, ok := x.Call.Value.(*ssa.Builtin); ok {
					if bi.Name() == "append" {
						return true
					}
					continue
				}
				callee := x.Call.StaticCallee()
				if callee == nil {
					return true
				}
				if fc := c.cs.Funcs[funcKey(callee)]; fc != nil && (fc.NoEffect || fc.NoAlloc) {
					continue
				}
				if callee.Pkg == nil || !strings.HasPrefix(callee.Pkg.Pkg.Path(), "github.com/juev/hledger-lsp") {
					switch callee.String() {
					case "strings.Split", "strings.Fields", "strings.SplitN", "maps.Copy":
						return true
					}
					if strings.HasPrefix(callee.String(), "maps.") || strings.HasPrefix(callee.String(), "slices.") || strings.HasPrefix(callee.String(), "sort.") {
						return true
					}
					continue // library calls are modelled as values; they allocate nothing in the model
				}
				fc := c.cs.Funcs[funcKey(callee)]
				if (fc == nil || fc.Pure) && callee.Blocks != nil && depth < 6 {
					sub := map[*ssa.BasicBlock]bool{}
					for _, cb := range callee.Blocks {
						sub[cb] = true
					}
					if fr.allocatesIn(sub, depth+1) {
						return true
					}
					continue
				}
				return true
			}
		}
	}
	return false
}

func loopFree(fn *ssa.Function) bool {
	for _, b := range fn.Blocks {
		for _, s := range b.Succs {
			if s.Dominates(b) {
				return false
			}
		}
	}
	return true
}

func isLeaf(fn *ssa.Function) bool {
	for _, b := range fn.Blocks {
		for _, s := range b.Succs {
			if s.Dominates(b) {
				return false
			}
		}
		for _, in := range b.Instrs {
			if call, ok := in.(*ssa.Call); ok {
				if _, isB := call.Call.Value.(*ssa.Builtin); !isB {
					return false
				}
			}
		}
	}
	return true
}

func hasNext(b *ssa.BasicBlock) bool {
	for _, in := range b.Instrs {
		if _, ok := in.(*ssa.Next); ok {
			return true
		}
	}
	return false
}

func naturalLoop(h *ssa.BasicBlock, isBack func(a, b *ssa.BasicBlock) bool) map[*ssa.BasicBlock]bool {
	body := map[*ssa.BasicBlock]bool{h: true}
	var stack []*ssa.BasicBlock
	for _, p := range h.Preds {
		if isBack(p, h) {
			stack = append(stack, p)
		}
	}
	for len(stack) > 0 {
		b := stack[len(stack)-1]
		stack = stack[:len(stack)-1]
		if body[b] {
			continue
		}
		body[b] = true
		stack = append(stack, b.Preds...)
	}
	return body
}

// modifiedIn returns local cells stored and heap keys written (directly or through callee modifies) in the blocks.
func (fr *Frame) modifiedIn(body map[*ssa.BasicBlock]bool) ([]*ssa.Alloc, []string) {
	c := fr.ctx
	cellSet := map[*ssa.Alloc]bool{}
	keySet := map[string]types.Type{}
	var rootOf func(v ssa.Value) (*ssa.Alloc, *types.Named, int, bool)
	rootOf = func(v ssa.Value) (*ssa.Alloc, *types.Named, int, bool) {
		switch x := v.(type) {
		case *ssa.Alloc:
			return x, nil, 0, true
		case *ssa.FieldAddr:
			if a, n, f, ok := rootOf(x.X); ok {
				if a != nil || n != nil {
					return a, n, f, true
				}
			}
			// pointer value base
			if p, ok := x.X.Type().Underlying().(*types.Pointer); ok {
				if n, ok := p.Elem().(*types.Named); ok {
					return nil, n, x.Field, true
				}
			}
		}
		return nil, nil, 0, false
	}
	var addCallee func(fn *ssa.Function, depth int)
	addCallee = func(fn *ssa.Function, depth int) {
		if fn == nil || depth > 6 {
			return
		}
		key := funcKey(fn)
		fc := c.cs.Funcs[key]
		if fc != nil && !fc.Pure {
			for _, m := range fc.Modifies {
				if n, f, ok := resolveModPath(fn, m); ok {
					k, ft := c.heapKey(n, f)
					keySet[k] = ft
				}
			}
			return
		}
		if fn.Blocks == nil || fn.Pkg == nil || !strings.HasPrefix(fn.Pkg.Pkg.Path(), "github.com/juev/hledger-lsp") {
			return // library calls are abstracted at the call site: they have no effect on the modelled heap
		}
		// transparent: scan body
		for _, b := range fn.Blocks {
			for _, in := range b.Instrs {
				switch x := in.(type) {
				case *ssa.Store:
					if a, n, f, ok := rootOf(x.Addr); ok && a == nil && n != nil {
						k, ft := c.heapKey(n, f)
						keySet[k] = ft
					}
				case *ssa.Call:
					addCallee(x.Call.StaticCallee(), depth+1)
				}
			}
		}
	}
	for b := range body {
		for _, in := range b.Instrs {
			switch x := in.(type) {
			case *ssa.Store:
				if a, n, f, ok := rootOf(x.Addr); ok {
					if a != nil {
						cellSet[a] = true
					} else if n != nil {
						k, ft := c.heapKey(n, f)
						keySet[k] = ft
					}
				}
			case *ssa.Call:
				addCallee(x.Call.StaticCallee(), 0)
			}
		}
	}
	for b := range body {
		for _, in := range b.Instrs {
			if x, ok := in.(*ssa.Next); ok {
				if it, ok := fr.iters[x.Iter]; ok {
					fr.rawHavoc = append(fr.rawHavoc, it.key)
				}
			}
		}
	}
	fr.collectHeapEffects(body, 0, map[*ssa.Function]bool{})
	var cells []*ssa.Alloc
	for a := range cellSet {
		cells = append(cells, a)
	}
	sort.Slice(cells, func(i, j int) bool { return cells[i].Name() < cells[j].Name() })
	var keys []string
	for k := range keySet {
		keys = append(keys, k)
	}
	sort.Strings(keys)
	for _, k := range keys {
		c.heapGet(fr.entry, k, keySet[k]) // make sure the entry array exists (in a fixed order)
	}
	return cells, keys
}

// collectHeapEffects appends to fr.rawHavoc the map / backing-array heap keys that the blocks may change: direct
// updates, allocations, transparent callees (recursively), closures of the function, and the modifies clauses of
// callees under contract.
func (fr *Frame) collectHeapEffects(body map[*ssa.BasicBlock]bool, depth int, seen map[*ssa.Function]bool) {
	c := fr.ctx
	addMap := func(t types.Type) {
		if mt, ok := t.Underlying().(*types.Map); ok {
			kd, kv, _, _ := c.mapHeaps(fr.entry, mt)
			fr.rawHavoc = append(fr.rawHavoc, kd, kv)
		}
	}
	addElem := func(elem types.Type) {
		k, _ := c.elemHeap(fr.entry, elem)
		fr.rawHavoc = append(fr.rawHavoc, k)
	}
	var elemOfAddr func(v ssa.Value) (types.Type, bool)
	elemOfAddr = func(v ssa.Value) (types.Type, bool) {
		switch a := v.(type) {
		case *ssa.IndexAddr:
			switch u := a.X.Type().Underlying().(type) {
			case *types.Slice:
				return u.Elem(), true
			case *types.Pointer:
				if at, ok := u.Elem().Underlying().(*types.Array); ok {
					return at.Elem(), true
				}
			}
		case *ssa.FieldAddr:
			return elemOfAddr(a.X)
		}
		return nil, false
	}
	scanFn := func(fn *ssa.Function) {
		if fn == nil || fn.Blocks == nil || seen[fn] || depth > 6 {
			return
		}
		seen[fn] = true
		sub := map[*ssa.BasicBlock]bool{}
		for _, b := range fn.Blocks {
			sub[b] = true
		}
		fr.collectHeapEffects(sub, depth+1, seen)
	}
	for b := range body {
		for _, in := range b.Instrs {
			switch x := in.(type) {
			case *ssa.MapUpdate:
				addMap(x.Map.Type())
			case *ssa.MakeMap:
				addMap(x.Type())
			case *ssa.MakeSlice:
				addElem(x.Type().Underlying().(*types.Slice).Elem())
			case *ssa.Alloc:
				if at, ok := x.Type().(*types.Pointer).Elem().Underlying().(*types.Array); ok {
					addElem(at.Elem())
				}
			case *ssa.Convert:
				if sl, ok := x.Type().Underlying().(*types.Slice); ok {
					addElem(sl.Elem())
				}
			case *ssa.Store:
				if et, ok := elemOfAddr(x.Addr); ok {
					addElem(et)
				}
				// a store through a local that holds an element address (p := &xs[i]; p.f = v)
				if fa, ok := x.Addr.(*ssa.FieldAddr); ok {
					if u, ok := fa.X.(*ssa.UnOp); ok {
						if al, ok := u.X.(*ssa.Alloc); ok {
							if av, ok := fr.ptrCells[al]; ok && av.Elem {
								addElem(av.Root)
							}
						}
					}
				}
			case *ssa.MakeClosure:
				scanFn(x.Fn.(*ssa.Function))
			case *ssa.Call:
				if bi, ok := x.Call.Value.(*ssa.Builtin); ok {
					switch bi.Name() {
					case "delete":
						addMap(x.Call.Args[0].Type())
					case "append":
						addElem(x.Call.Args[0].Type().Underlying().(*types.Slice).Elem())
					case "copy":
						if sl, ok := x.Call.Args[0].Type().Underlying().(*types.Slice); ok {
							addElem(sl.Elem())
						}
					}
					continue
				}
				callee := x.Call.StaticCallee()
				if callee == nil {
					// closure value or interface method: the closures of this function may run
					if fr.fn != nil {
						for _, af := range fr.fn.AnonFuncs {
							scanFn(af)
						}
					}
					continue
				}
				full := callee.String()
				if strings.HasPrefix(full, "maps.Copy[") {
					addMap(x.Call.Args[0].Type())
					continue
				}
				if full == "(*sync.Map).Store" || full == "(*sync.Map).Delete" {
					if fa, ok := x.Call.Args[0].(*ssa.FieldAddr); ok {
						if pt, ok := fa.X.Type().Underlying().(*types.Pointer); ok {
							if n, ok := pt.Elem().(*types.Named); ok {
								fk, _ := c.heapKey(n, fa.Field)
								kd, kv, _, _ := c.syncMapHeaps(fr.entry, fk)
								fr.rawHavoc = append(fr.rawHavoc, kd, kv)
							}
						}
					}
					continue
				}
				if callee.Pkg == nil || !strings.HasPrefix(callee.Pkg.Pkg.Path(), "github.com/juev/hledger-lsp") {
					if sl, ok := x.Type().Underlying().(*types.Slice); ok && (full == "strings.Split" || full == "strings.Fields" || full == "strings.SplitN") {
						addElem(sl.Elem())
					}
					continue
				}
				fc := c.cs.Funcs[funcKey(callee)]
				if fc == nil || fc.Pure {
					if callee.Pkg != c.pkg && fc == nil && !isLeaf(callee) {
						continue // abstracted as an opaque value at the call
					}
					scanFn(callee)
					continue
				}
				if fc.Auto {
					for k := range c.heapSrt {
						if strings.HasPrefix(k, "Mdom:") || strings.HasPrefix(k, "Mval:") || strings.HasPrefix(k, "E:") {
							fr.rawHavoc = append(fr.rawHavoc, k)
						}
					}
					continue
				}
				withPkg(fc.Pkg, func() {
					binds := map[string]Val{}
					for _, p := range callee.Params {
						binds[p.Name()] = Val{"0", p.Type()}
					}
					scratch := &State{pc: "true", cells: map[cellKey]string{}, heap: map[string]string{}}
					for _, e := range fc.ModMaps {
						ex := strings.TrimSuffix(e, "[*]")
						v := fr.evalExpr(ex, &Env{fr: fr, st: scratch, old: scratch, binds: binds, noLocals: true})
						addMap(v.Typ)
						if strings.HasSuffix(e, "[*]") {
							addMap(v.Typ.Underlying().(*types.Map).Elem())
						}
					}
					for _, e := range fc.ModElems {
						v := fr.evalExpr(e, &Env{fr: fr, st: scratch, old: scratch, binds: binds, noLocals: true})
						addElem(v.Typ.Underlying().(*types.Slice).Elem())
					}
				})
				if !fc.NoEffect && !fc.NoAlloc {
					// the callee may allocate maps and arrays: of the types its code allocates (static scan)
					as := c.allocKeysOf(callee)
					for k := range c.heapSrt {
						if strings.HasPrefix(k, "Mdom:") || strings.HasPrefix(k, "Mval:") || strings.HasPrefix(k, "E:") {
							if as.all || as.keys[k] {
								fr.rawHavoc = append(fr.rawHavoc, k)
							}
						}
					}
				}
			}
		}
	}
}

func (fr *Frame) merge(ins []edge, b *ssa.BasicBlock) *State {
	c := fr.ctx
	if len(ins) == 1 {
		st := ins[0].st.clone()
		st.sel = map[*ssa.BasicBlock]string{ins[0].from: "true"}
		return st
	}
	st := &State{cells: map[cellKey]string{}, heap: map[string]string{}, sel: map[*ssa.BasicBlock]string{}}
	var pcs []string
	for _, e := range ins {
		// name each incoming pc
		n := c.fresh(fmt.Sprintf("pe_b%d", b.Index), "Bool")
		c.defs = append(c.defs, fmt.Sprintf("(assert (= %s %s))", n, e.st.pc))
		pcs = append(pcs, n)
		st.sel[e.from] = n
	}
	var raw []string
	for _, e := range ins {
		raw = append(raw, e.st.pc)
	}
	if pcol, ok := collapse(raw); ok {
		st.pc = pcol
	} else {
		pcb := c.fresh(fmt.Sprintf("pc_b%d", b.Index), "Bool")
		c.defs = append(c.defs, fmt.Sprintf("(assert (= %s (or %s)))", pcb, strings.Join(pcs, " ")))
		st.pc = pcb
	}
	// cells
	all := map[cellKey]bool{}
	for _, e := range ins {
		for a := range e.st.cells {
			all[a] = true
		}
	}
	for _, a := range sortedCellKeys(all) {
		same := true
		first := ""
		for i, e := range ins {
			v, ok := e.st.cells[a]
			if !ok {
				same = false
				break
			}
			if i == 0 {
				first = v
			} else if v != first {
				same = false
			}
		}
		if same {
			st.cells[a] = first
			continue
		}
		m := c.fresh("m_"+a.a.Comment, c.sortOf(c.typeAtStr(a.a.Type().(*types.Pointer).Elem(), a.path)))
		for i, e := range ins {
			if v, ok := e.st.cells[a]; ok {
				c.defs = append(c.defs, fmt.Sprintf("(assert (=> %s (= %s %s)))", pcs[i], m, v))
			}
		}
		st.cells[a] = m
	}
	keys := map[string]bool{}
	for _, e := range ins {
		for k := range e.st.heap {
			keys[k] = true
		}
	}
	for _, k := range sortedStrKeys(keys) {
		same := true
		first := ""
		for i, e := range ins {
			v := c.heapGet(e.st, k, nil)
			if i == 0 {
				first = v
			} else if v != first {
				same = false
			}
		}
		if same {
			st.heap[k] = first
			continue
		}
		m := c.fresh("mH_"+k, c.heapSrt[k])
		for i, e := range ins {
			c.defs = append(c.defs, fmt.Sprintf("(assert (=> %s (= %s %s)))", pcs[i], m, c.heapGet(e.st, k, nil)))
		}
		st.heap[k] = m
	}
	return st
}

func (fr *Frame) step(st *State, in ssa.Instruction) bool {
	c := fr.ctx
	switch x := in.(type) {
	case *ssa.DebugRef, *ssa.RunDefers:
		return true
	case *ssa.Alloc:
		elem := x.Type().(*types.Pointer).Elem()
		if at, ok := elem.Underlying().(*types.Array); ok {
			r := fr.newRef(st, "newarray")
			fr.vals[x] = Val{r, x.Type()}
			_ = at
			return true
		}
		if n, ok := elem.(*types.Named); ok && x.Heap && !isBuilder(n) {
			if stt, ok := n.Underlying().(*types.Struct); ok && c.sortOf(n) != "U" {
				r := fr.newRef(st, "new_"+n.Obj().Name())
				for i := 0; i < stt.NumFields(); i++ {
					key, ft := c.heapKey(n, i)
					arr := c.heapGet(st, key, ft)
					st.heap[key] = fmt.Sprintf("(store %s %s %s)", arr, r, c.zero(ft))
				}
				fr.vals[x] = Val{r, x.Type()}
				return true
			}
		}
		if x.Heap {
			// escaping allocation: model as local cell anyway in the spike
			c.note("%s: heap alloc %s treated as local cell", fr.fname, x.Comment)
		}
		c.writeCell(st, x, elem, nil, c.zero(elem))
		fr.addrs[x] = Addr{Local: x, Root: elem}
		if x.Comment != "" {
			fr.locals[x.Comment] = append(fr.locals[x.Comment], x)
		}
		return true
	case *ssa.Store:
		if mc, isClos := fr.closures[x.Val]; isClos {
			if dst, ok := x.Addr.(*ssa.Alloc); ok {
				if fr.closCells == nil {
					fr.closCells = map[*ssa.Alloc]*ssa.MakeClosure{}
				}
				fr.closCells[dst] = mc
				return true
			}
		}
		if av, isAddr := fr.addrs[x.Val]; isAddr {
			if dst, ok := x.Addr.(*ssa.Alloc); ok && (av.Elem || av.Local == nil || (av.Root != nil && isBuilder(av.Root))) {
				if fr.ptrCells == nil {
					fr.ptrCells = map[*ssa.Alloc]Addr{}
				}
				fr.ptrCells[dst] = av
				if _, isParam := x.Val.(*ssa.Parameter); isParam {
					// the spill of a pointer parameter that is also known as an address (a *strings.Builder): the cell
					// keeps the pointer value too, so that the parameter's name still denotes it in the contract
					if a2, ok2 := fr.addrOf(st, x.Addr); ok2 {
						if pv, has := fr.vals[x.Val]; has {
							fr.store(st, a2, pv, x.Pos())
						}
					}
				}
				return true
			}
		}
		a, ok := fr.addrOf(st, x.Addr)
		if !ok {
			if pt, isP := x.Addr.Type().Underlying().(*types.Pointer); isP {
				if n, isN := pt.Elem().(*types.Named); isN {
					if stt, isS := n.Underlying().(*types.Struct); isS && c.sortOf(n) != "U" && !isSyncMap(n) && !isBuilder(n) {
						// *p = v for a pointer to a repository struct: every field heap is updated at p
						pv, vv := fr.val(x.Addr), fr.val(x.Val)
						fr.obligeAt(st, "safety.nil", "sel", fmt.Sprintf("(not (= %s 0))", pv.T), x.Pos())
						name := c.sortOf(n)
						vt := vv.T
						if strings.ContainsAny(vt, " (") {
							nm := c.fresh("sv", name)
							c.defs = append(c.defs, fmt.Sprintf("(assert (= %s %s))", nm, vt))
							vt = nm
						}
						for i := 0; i < stt.NumFields(); i++ {
							key, ft := c.heapKey(n, i)
							if !fr.writeAll {
								fr.obligeAt(st, "frame.write", "sel", fr.writePerm(key, pv.T), x.Pos())
							}
							arr := c.heapGet(st, key, ft)
							st.heap[key] = fmt.Sprintf("(store %s %s (%s.%s %s))", arr, pv.T, name, stt.Field(i).Name(), vt)
						}
						return true
					}
				}
			}
			c.note("%s: store through unknown address %s", fr.fname, x.Addr.Name())
			return true
		}
		fr.store(st, a, fr.val(x.Val), x.Pos())
		return true
	case *ssa.UnOp:
		switch x.Op {
		case token.MUL:
			if src, isAlloc := x.X.(*ssa.Alloc); isAlloc {
				if mc, ok := fr.closCells[src]; ok {
					if fr.closures == nil {
						fr.closures = map[ssa.Value]*ssa.MakeClosure{}
					}
					fr.closures[x] = mc
					fr.vals[x] = Val{c.fresh("closure", "U"), x.Type()}
					return true
				}
			}
			if src, isAlloc := x.X.(*ssa.Alloc); isAlloc {
				if av, ok := fr.ptrCells[src]; ok {
					fr.addrs[x] = av // the loaded value is itself an address
					return true
				}
			}
			a, ok := fr.addrOf(st, x.X)
			if !ok {
				if g, isG := x.X.(*ssa.Global); isG {
					fr.vals[x] = Val{c.globalConst(g.Name(), x.Type()), x.Type()}
					return true
				}
				if pt, isP := x.X.Type().Underlying().(*types.Pointer); isP {
					if n, isN := pt.Elem().(*types.Named); isN {
						if stt, isS := n.Underlying().(*types.Struct); isS && c.sortOf(n) != "U" && !isSyncMap(n) {
							// *p for a pointer to a repository struct: the value assembled from the per-field heaps
							pv := fr.val(x.X)
							fr.obligeAt(st, "safety.nil", "sel", fmt.Sprintf("(not (= %s 0))", pv.T), x.Pos())
							var fs []string
							for i := 0; i < stt.NumFields(); i++ {
								key, ft := c.heapKey(n, i)
								fs = append(fs, fmt.Sprintf("(select %s %s)", c.heapGet(st, key, ft), pv.T))
							}
							fr.vals[x] = Val{fmt.Sprintf("(mk-%s %s)", c.sortOf(n), strings.Join(fs, " ")), x.Type()}
							return true
						}
					}
				}
				c.note("%s: load through unknown address %s", fr.fname, x.X.Name())
				fr.vals[x] = Val{c.fresh("ld", c.sortOf(x.Type())), x.Type()}
				return true
			}
			fr.vals[x] = fr.load(st, a, x.Pos())
		case token.NOT:
			fr.vals[x] = Val{fmt.Sprintf("(not %s)", fr.val(x.X).T), x.Type()}
		case token.SUB:
			t := wrapUnsigned(x.Type(), fmt.Sprintf("(- %s)", fr.val(x.X).T))
			// two's complement: the most negative value of a signed fixed-width type is its own negation (the one place
			// where treating signed arithmetic as mathematical is wrong without any large operand being written down)
			if b, ok := x.Type().Underlying().(*types.Basic); ok {
				min := ""
				switch b.Kind() {
				case types.Int8:
					min = "(- 128)"
				case types.Int16:
					min = "(- 32768)"
				case types.Int32:
					min = "(- 2147483648)"
				case types.Int64, types.Int:
					min = "(- 9223372036854775808)"
				}
				if min != "" {
					v := fr.val(x.X).T
					t = fmt.Sprintf("(ite (= %s %s) %s (- %s))", v, min, min, v)
				}
			}
			fr.vals[x] = Val{t, x.Type()}
		default:
			fr.vals[x] = Val{c.fresh("unop", c.sortOf(x.Type())), x.Type()}
		}
		return true
	case *ssa.BinOp:
		l, r := fr.val(x.X), fr.val(x.Y)
		var t string
		isStr := c.sortOf(x.X.Type()) == "Str"
		switch x.Op {
		case token.ADD:
			if isStr {
				t = fmt.Sprintf("(sconcat %s %s)", l.T, r.T)
			} else {
				t = wrapUnsigned(x.Type(), fmt.Sprintf("(+ %s %s)", l.T, r.T))
			}
		case token.SUB:
			t = wrapUnsigned(x.Type(), fmt.Sprintf("(- %s %s)", l.T, r.T))
		case token.MUL:
			t = wrapUnsigned(x.Type(), fmt.Sprintf("(* %s %s)", l.T, r.T))
		case token.QUO:
			fr.obligeAt(st, "safety.div", "binary", fmt.Sprintf("(not (= %s 0))", r.T), x.Pos())
			t = fmt.Sprintf("(div %s %s)", l.T, r.T)
		case token.REM:
			fr.obligeAt(st, "safety.div", "binary", fmt.Sprintf("(not (= %s 0))", r.T), x.Pos())
			t = fmt.Sprintf("(mod %s %s)", l.T, r.T)
		case token.EQL:
			t = fmt.Sprintf("(= %s %s)", l.T, r.T)
		case token.NEQ:
			t = fmt.Sprintf("(not (= %s %s))", l.T, r.T)
		case token.LSS:
			t = fmt.Sprintf("(< %s %s)", l.T, r.T)
		case token.LEQ:
			t = fmt.Sprintf("(<= %s %s)", l.T, r.T)
		case token.GTR:
			t = fmt.Sprintf("(> %s %s)", l.T, r.T)
		case token.GEQ:
			t = fmt.Sprintf("(>= %s %s)", l.T, r.T)
		default:
			t = c.fresh("binop", c.sortOf(x.Type()))
		}
		fr.vals[x] = Val{t, x.Type()}
		return true
	case *ssa.FieldAddr:
		if a, ok := fr.addrs[x.X]; ok {
			na := a
			na.Path = append(append([]int{}, a.Path...), x.Field)
			fr.addrs[x] = na
			return true
		}
		pv := fr.val(x.X)
		n := x.X.Type().Underlying().(*types.Pointer).Elem().(*types.Named)
		fr.addrs[x] = Addr{Ref: pv.T, Base: n, Path: []int{x.Field}}
		return true
	case *ssa.Field:
		sv := fr.val(x.X)
		t, ty := c.pathGet(sv.T, x.X.Type(), []int{x.Field})
		fr.vals[x] = Val{t, ty}
		return true
	case *ssa.Lookup:
		if c.sortOf(x.X.Type()) == "Str" {
			s, i := fr.val(x.X), fr.val(x.Index)
			fr.obligeAt(st, "safety.index", "index", fmt.Sprintf("(and (<= 0 %s) (< %s (slen %s)))", i.T, i.T, s.T), x.Pos())
			fr.vals[x] = Val{fmt.Sprintf("(sat %s %s)", s.T, i.T), x.Type()}
			// name the decode step at every offset the code looks at (instance of the step axiom; gives the chain axioms their trigger)
			fr.assume(st, fmt.Sprintf("(= (step %s %s) (+ %s (width %s %s)))", s.T, i.T, i.T, s.T, i.T))
			return true
		}
		if mt, ok := x.X.Type().Underlying().(*types.Map); ok {
			if _, isGlobalLoad := x.X.(*ssa.UnOp); !isGlobalLoad || true {
				mv, kv := fr.val(x.X), fr.val(x.Index)
				v, has := c.mapLookup(st, mt, mv.T, kv.T)
				if x.CommaOk {
					fr.tuples[x] = []Val{{v, mt.Elem()}, {has, types.Typ[types.Bool]}}
				} else {
					fr.vals[x] = Val{v, x.Type()}
				}
				return true
			}
		}
		// map lookup: opaque
		if x.CommaOk {
			fr.tuples[x] = []Val{{c.fresh("mapv", "U"), nil}, {c.fresh("mapok", "Bool"), types.Typ[types.Bool]}}
		} else {
			fr.vals[x] = Val{c.fresh("mapv", c.sortOf(x.Type())), x.Type()}
		}
		return true
	case *ssa.Index:
		if c.sortOf(x.X.Type()) == "Str" {
			s, i := fr.val(x.X), fr.val(x.Index)
			fr.obligeAt(st, "safety.index", "index", fmt.Sprintf("(and (<= 0 %s) (< %s (slen %s)))", i.T, i.T, s.T), x.Pos())
			fr.vals[x] = Val{fmt.Sprintf("(sat %s %s)", s.T, i.T), x.Type()}
			return true
		}
		fr.vals[x] = Val{c.fresh("idx", c.sortOf(x.Type())), x.Type()}
		return true
	case *ssa.Slice:
		if c.sortOf(x.X.Type()) == "Str" {
			s := fr.val(x.X)
			lo, hi := "0", fmt.Sprintf("(slen %s)", s.T)
			if x.Low != nil {
				lo = fr.val(x.Low).T
			}
			if x.High != nil {
				hi = fr.val(x.High).T
			}
			fr.obligeAt(st, "safety.slice", "slice", fmt.Sprintf("(and (<= 0 %s) (<= %s %s) (<= %s (slen %s)))", lo, lo, hi, hi, s.T), x.Pos())
			fr.vals[x] = Val{fmt.Sprintf("(substr %s %s %s)", s.T, lo, hi), x.Type()}
			return true
		}
		if pt, ok := x.X.Type().Underlying().(*types.Pointer); ok {
			if at, ok := pt.Elem().Underlying().(*types.Array); ok {
				pv := fr.val(x.X)
				lo, hi := "0", fmt.Sprint(at.Len())
				if x.Low != nil {
					lo = fr.val(x.Low).T
				}
				if x.High != nil {
					hi = fr.val(x.High).T
				}
				c.sortOf(x.Type())
				fr.vals[x] = Val{fmt.Sprintf("(mk-slice %s %s (- %s %s))", pv.T, lo, hi, lo), x.Type()}
				return true
			}
		}
		if _, ok := x.X.Type().Underlying().(*types.Slice); ok {
			// s[lo:hi] of a slice: same backing array, shifted window (capacity is not modelled: hi is checked against len)
			sv := fr.val(x.X)
			lo, hi := "0", fmt.Sprintf("(sl.len %s)", sv.T)
			if x.Low != nil {
				lo = fr.val(x.Low).T
			}
			if x.High != nil {
				hi = fr.val(x.High).T
			}
			fr.obligeAt(st, "safety.slice", "slice", fmt.Sprintf("(and (<= 0 %s) (<= %s %s) (<= %s (sl.len %s)))", lo, lo, hi, hi, sv.T), x.Pos())
			fr.vals[x] = Val{fmt.Sprintf("(mk-slice (sl.arr %s) (+ (sl.off %s) %s) (- %s %s))", sv.T, sv.T, lo, hi, lo), x.Type()}
			return true
		}
		fr.vals[x] = Val{c.fresh("slice", "U"), x.Type()}
		return true
	case *ssa.Extract:
		if tu, ok := fr.tuples[x.Tuple]; ok {
			fr.vals[x] = Val{tu[x.Index].T, x.Type()}
		} else {
			fr.vals[x] = Val{c.fresh("extract", c.sortOf(x.Type())), x.Type()}
		}
		return true
	case *ssa.Convert:
		v := fr.val(x.X)
		from, to := c.sortOf(x.X.Type()), c.sortOf(x.Type())
		switch {
		case from == "Int" && to == "Int":
			if inv := c.typeInv(v.T, x.Type(), 0); len(inv) > 0 && len(c.typeInv(v.T, x.X.Type(), 0)) == 0 || (len(inv) > 0 && narrower(x.Type(), x.X.Type())) {
				fr.obligeAt(st, "safety.conversion", "call", inv[0], x.Pos())
			}
			fr.vals[x] = Val{wrapUnsigned(x.Type(), v.T), x.Type()}
		case from == "Str" && to == "Slice":
			// []rune(s) / []byte(s): a fresh array holding the runes (bytes) of s; as a sequence it is runesof(s) / the bytes
			sl := x.Type().Underlying().(*types.Slice)
			eb, _ := sl.Elem().Underlying().(*types.Basic)
			r := fr.newRef(st, "convarr")
			key, arr := c.elemHeap(st, sl.Elem())
			inner := c.fresh("convinner", "(Array Int Int)")
			c.n++
			q := fmt.Sprintf("i_q%d", c.n)
			if eb != nil && eb.Kind() == types.Uint8 {
				fr.assume(st, fmt.Sprintf("(forall ((%s Int)) (! (=> (and (<= 0 %s) (< %s (slen %s))) (= (select %s %s) (sat %s %s))) :pattern ((select %s %s))))", q, q, q, v.T, inner, q, v.T, q, inner, q))
				fr.setElemHeap(st, key, sl.Elem(), arr, fmt.Sprintf("(store %s %s %s)", arr, r, inner), r)
				fr.vals[x] = Val{fmt.Sprintf("(mk-slice %s 0 (slen %s))", r, v.T), x.Type()}
			} else {
				fr.assume(st, fmt.Sprintf("(forall ((%s Int)) (! (=> (and (<= 0 %s) (< %s (rcount %s))) (= (select %s %s) (runeat %s %s))) :pattern ((select %s %s))))", q, q, q, v.T, inner, q, v.T, q, inner, q))
				fr.setElemHeap(st, key, sl.Elem(), arr, fmt.Sprintf("(store %s %s %s)", arr, r, inner), r)
				fr.vals[x] = Val{fmt.Sprintf("(mk-slice %s 0 (rcount %s))", r, v.T), x.Type()}
			}
		case from == "Slice" && to == "Str" && isByteSlice(x.X.Type()):
			// string(b): a function of the bytes b holds (bstr: contents and length), so that two conversions of the same bytes agree
			sl := x.X.Type().Underlying().(*types.Slice)
			_, arr := c.elemHeap(st, sl.Elem())
			r := c.fresh("conv", "Str")
			fr.assume(st, fmt.Sprintf("(=> (= (sl.off %s) 0) (= %s (bstr (select %s (sl.arr %s)) (sl.len %s))))", v.T, r, arr, v.T, v.T))
			fr.assume(st, fmt.Sprintf("(= (slen %s) (sl.len %s))", r, v.T))
			fr.vals[x] = Val{r, x.Type()}
		case from == "Int" && to == "Str":
			// string(r): the UTF-8 encoding of the code point (1..4 bytes; U+FFFD, 3 bytes, for an invalid one)
			fr.vals[x] = Val{fmt.Sprintf("(strofrune %s)", v.T), x.Type()}
		default:
			fr.vals[x] = Val{c.fresh("conv", to), x.Type()}
		}
		return true
	case *ssa.ChangeType:
		v := fr.val(x.X)
		fr.vals[x] = Val{v.T, x.Type()}
		return true
	case *ssa.Phi:
		t := ""
		for i := len(x.Edges) - 1; i >= 0; i-- {
			pred := x.Block().Preds[i]
			sel, ok := st.sel[pred]
			if !ok {
				continue
			}
			v := fr.val(x.Edges[i])
			if t == "" {
				t = v.T
			} else {
				t = fmt.Sprintf("(ite %s %s %s)", sel, v.T, t)
			}
		}
		if t == "" {
			t = c.fresh("phi", c.sortOf(x.Type()))
		}
		fr.vals[x] = Val{t, x.Type()}
		return true
	case *ssa.Call:
		return fr.call(st, x)
	case *ssa.If, *ssa.Jump, *ssa.Return, *ssa.Panic:
		return true
	case *ssa.IndexAddr:
		if sl, ok := x.X.Type().Underlying().(*types.Slice); ok {
			sv, iv := fr.val(x.X), fr.val(x.Index)
			fr.obligeAt(st, "safety.index", "index", fmt.Sprintf("(and (<= 0 %s) (< %s (sl.len %s)))", iv.T, iv.T, sv.T), x.Pos())
			fr.addrs[x] = Addr{Elem: true, Ref: fmt.Sprintf("(sl.arr %s)", sv.T), Idx: fmt.Sprintf("(+ (sl.off %s) %s)", sv.T, iv.T), Root: sl.Elem(), Sl: sv.T, RelIx: iv.T}
			return true
		}
		if pt, ok := x.X.Type().Underlying().(*types.Pointer); ok {
			if at, ok := pt.Elem().Underlying().(*types.Array); ok {
				pv, iv := fr.val(x.X), fr.val(x.Index)
				fr.obligeAt(st, "safety.index", "index", fmt.Sprintf("(and (<= 0 %s) (< %s %d))", iv.T, iv.T, at.Len()), x.Pos())
				fr.addrs[x] = Addr{Elem: true, Ref: pv.T, Idx: iv.T, Root: at.Elem()}
				return true
			}
		}
		c.note("%s: IndexAddr on non-slice abstracted", fr.fname)
		return true
	case *ssa.MakeMap:
		m := fr.newRef(st, "newmap")
		mt := x.Type().Underlying().(*types.Map)
		kd, _, dom, _ := c.mapHeaps(st, mt)
		ks := c.sortOf(mt.Key())
		// fresh, non-nil, empty
		fr.assume(st, fmt.Sprintf("(> %s 0)", m))
		for _, p := range fr.refParams {
			fr.assume(st, fmt.Sprintf("(not (= %s %s))", m, p))
		}
		st.heap[kd] = fmt.Sprintf("(store %s %s ((as const (Array %s Bool)) false))", dom, m, ks)
		fr.vals[x] = Val{m, x.Type()}
		fr.refParams = append(fr.refParams, m)
		return true
	case *ssa.MapUpdate:
		mt := x.Map.Type().Underlying().(*types.Map)
		mv, kv2, vv := fr.val(x.Map), fr.val(x.Key), fr.val(x.Value)
		fr.obligeAt(st, "safety.nilmap", "index", fmt.Sprintf("(not (= %s 0))", mv.T), x.Pos())
		kd, kv, dom, val := c.mapHeaps(st, mt)
		fr.obligeAt(st, "frame.map_write", "index", fr.mapWritePermission(st, mv.T, mt, x.Block()), x.Pos())
		st.heap[kd] = fmt.Sprintf("(store %s %s (store (select %s %s) %s true))", dom, mv.T, dom, mv.T, kv2.T)
		st.heap[kv] = fmt.Sprintf("(store %s %s (store (select %s %s) %s %s))", val, mv.T, val, mv.T, kv2.T, vv.T)
		return true
	case *ssa.Range:
		fr.iterN++
		switch u := x.X.Type().Underlying().(type) {
		case *types.Map:
			key := fmt.Sprintf("ITseen:%s%d", fr.iterPfx, fr.iterN)
			ks := c.sortOf(u.Key())
			c.heapSrt[key] = fmt.Sprintf("(Array %s Bool)", ks)
			st.heap[key] = fmt.Sprintf("((as const (Array %s Bool)) false)", ks)
			fr.iters[x] = iterInfo{key: key, mt: u, ref: fr.val(x.X).T}
			fr.iterKeys[fr.iterN] = key
		default:
			if c.sortOf(x.X.Type()) == "Str" {
				key := fmt.Sprintf("ITpos:%s%d", fr.iterPfx, fr.iterN)
				c.heapSrt[key] = "Int"
				st.heap[key] = "0"
				fr.iters[x] = iterInfo{key: key, str: fr.val(x.X).T}
				fr.iterKeys[fr.iterN] = key
			} else {
				c.note("%s: range over %v abstracted", fr.fname, x.X.Type())
			}
		}
		return true
	case *ssa.Next:
		it, ok := fr.iters[x.Iter]
		if !ok {
			c.note("%s: next on unknown iterator abstracted", fr.fname)
			fr.tuples[x] = []Val{{c.fresh("ok", "Bool"), types.Typ[types.Bool]}, {c.fresh("k", "U"), nil}, {c.fresh("v", "U"), nil}}
			return true
		}
		if it.mt != nil && fr.forcedKey != "" {
			_, _, _, val := c.mapHeaps(st, it.mt)
			k := fr.forcedKey
			fr.forcedKey = ""
			v := fmt.Sprintf("(select (select %s %s) %s)", val, it.ref, k)
			fr.tuples[x] = []Val{{"true", types.Typ[types.Bool]}, {k, it.mt.Key()}, {v, it.mt.Elem()}}
			return true
		}
		if it.mt != nil {
			ks := c.sortOf(it.mt.Key())
			seen := st.heap[it.key]
			k := c.fresh("itk", ks)
			okb := c.fresh("itok", "Bool")
			_, _, dom, val := c.mapHeaps(st, it.mt)
			d := fmt.Sprintf("(select %s %s)", dom, it.ref)
			fr.assume(st, fmt.Sprintf("(=> %s (and (select %s %s) (not (select %s %s))))", okb, d, k, seen, k))
			c.n++
			q := fmt.Sprintf("x_q%d", c.n)
			fr.assume(st, fmt.Sprintf("(=> (not %s) (forall ((%s %s)) (! (=> (select %s %s) (select %s %s)) :pattern ((select %s %s)))))", okb, q, ks, d, q, seen, q, seen, q))
			st.heap[it.key] = fmt.Sprintf("(ite %s (store %s %s true) %s)", okb, seen, k, seen)
			v := fmt.Sprintf("(select (select %s %s) %s)", val, it.ref, k)
			fr.tuples[x] = []Val{{okb, types.Typ[types.Bool]}, {k, it.mt.Key()}, {v, it.mt.Elem()}}
			return true
		}
		pos := st.heap[it.key]
		okb := fmt.Sprintf("(< %s (slen %s))", pos, it.str)
		fr.tuples[x] = []Val{{okb, types.Typ[types.Bool]}, {pos, types.Typ[types.Int]}, {fmt.Sprintf("(rune %s %s)", it.str, pos), types.Typ[types.Rune]}}
		st.heap[it.key] = fmt.Sprintf("(ite %s (step %s %s) %s)", okb, it.str, pos, pos)
		return true
	case *ssa.MakeSlice:
		sl := x.Type().Underlying().(*types.Slice)
		n := fr.val(x.Len)
		fr.obligeAt(st, "safety.makeslice", "call", fmt.Sprintf("(>= %s 0)", n.T), x.Pos())
		r := fr.newRef(st, "mkslice")
		key, arr := c.elemHeap(st, sl.Elem())
		es := c.sortOf(sl.Elem())
		fr.setElemHeap(st, key, sl.Elem(), arr, fmt.Sprintf("(store %s %s ((as const (Array Int %s)) %s))", arr, r, es, c.zero(sl.Elem())), r)
		c.sortOf(x.Type())
		fr.vals[x] = Val{fmt.Sprintf("(mk-slice %s 0 %s)", r, n.T), x.Type()}
		return true
	case *ssa.MakeInterface:
		if _, isIf := x.X.Type().Underlying().(*types.Interface); !isIf && c.sortOf(x.X.Type()) != "U" {
			fr.vals[x] = Val{c.boxTerm(Val{fr.val(x.X).T, x.X.Type()}), x.Type()}
			return true
		}
		c.sortOf(x.Type())
		fr.vals[x] = Val{c.fresh("iface", "Iface"), x.Type()}
		return true
	case *ssa.TypeAssert:
		if _, isIf := x.AssertedType.Underlying().(*types.Interface); !isIf && c.sortOf(x.X.Type()) == "Iface" {
			id, acc := c.ifaceTag(x.AssertedType)
			v := fr.val(x.X)
			ok := fmt.Sprintf("(= (iftag %s) %d)", v.T, id)
			val := fmt.Sprintf("(ite %s (%s %s) %s)", ok, acc, v.T, c.zero(x.AssertedType))
			if isRefType(x.AssertedType) {
				// whatever reference an existing interface value carries has been allocated already
				fr.assume(st, fmt.Sprintf("(=> %s (<= (%s %s) %s))", ok, acc, v.T, fr.allocTerm(st)))
			}
			if x.CommaOk {
				fr.tuples[x] = []Val{{val, x.AssertedType}, {ok, types.Typ[types.Bool]}}
			} else {
				fr.obligeAt(st, "safety.typeassert", "typeassert", ok, x.Pos())
				fr.vals[x] = Val{val, x.AssertedType}
			}
			return true
		}
		c.note("%s: type assertion to %v abstracted", fr.fname, x.AssertedType)
		if x.CommaOk {
			fr.tuples[x] = []Val{{c.fresh("ta", c.sortOf(x.AssertedType)), x.AssertedType}, {c.fresh("taok", "Bool"), types.Typ[types.Bool]}}
		} else {
			fr.vals[x] = Val{c.fresh("ta", c.sortOf(x.AssertedType)), x.AssertedType}
		}
		return true
	case *ssa.MakeClosure:
		if fr.closures == nil {
			fr.closures = map[ssa.Value]*ssa.MakeClosure{}
		}
		fr.closures[x] = x
		fr.vals[x] = Val{c.fresh("closure", "U"), x.Type()}
		return true
	}
	c.note("%s: unsupported instruction %T abstracted", fr.fname, in)
	if v, ok := in.(ssa.Value); ok {
		fr.vals[v] = Val{c.fresh("abs", c.sortOf(v.Type())), v.Type()}
	}
	return true
}

func exprText(fr *Frame, v ssa.Value) string {
	// best effort: source text is not kept; use SSA operands' names
	switch x := v.(type) {
	case *ssa.Lookup:
		return x.X.Name() + "[" + x.Index.Name() + "]@" + fmt.Sprint(fr.ctx.prog.Fset.Position(x.Pos()).Line)
	case *ssa.Slice:
		return x.X.Name() + "[:]@" + fmt.Sprint(fr.ctx.prog.Fset.Position(x.Pos()).Line)
	}
	return v.Name()
}

func (fr *Frame) call(st *State, x *ssa.Call) bool {
	c := fr.ctx
	setRes := func(vs ...Val) {
		if len(vs) == 1 {
			fr.vals[x] = vs[0]
		} else {
			fr.tuples[x] = vs
		}
	}
	if b, ok := x.Call.Value.(*ssa.Builtin); ok {
		switch b.Name() {
		case "len":
			a := fr.val(x.Call.Args[0])
			if c.sortOf(x.Call.Args[0].Type()) == "Str" {
				setRes(Val{fmt.Sprintf("(slen %s)", a.T), x.Type()})
			} else if c.sortOf(x.Call.Args[0].Type()) == "Slice" {
				setRes(Val{fmt.Sprintf("(sl.len %s)", a.T), x.Type()})
			} else if mt, ok := x.Call.Args[0].Type().Underlying().(*types.Map); ok {
				// len(m) is the cardinality of the domain: an uninterpreted function of the domain set (0 iff empty)
				card := c.mcardFn(mt)
				_, _, dom, _ := c.mapHeaps(st, mt)
				setRes(Val{fmt.Sprintf("(%s (select %s %s))", card, dom, a.T), x.Type()})
			} else {
				n := c.fresh("len", "Int")
				c.defs = append(c.defs, fmt.Sprintf("(assert (>= %s 0))", n))
				setRes(Val{n, x.Type()})
			}
		case "append":
			sl := x.Call.Args[0].Type().Underlying().(*types.Slice)
			a, b := fr.val(x.Call.Args[0]), fr.val(x.Call.Args[1])
			key, arr := c.elemHeap(st, sl.Elem())
			es := c.sortOf(sl.Elem())
			nref := fr.newRef(st, "newarr")
			fr.assume(st, fmt.Sprintf("(> %s 0)", nref))
			for _, p := range fr.refParams {
				fr.assume(st, fmt.Sprintf("(not (= %s %s))", nref, p))
			}
			fr.refParams = append(fr.refParams, nref)
			inner := c.fresh("inner", fmt.Sprintf("(Array Int %s)", es))
			c.n++
			q := fmt.Sprintf("i_q%d", c.n)
			la, lb := fmt.Sprintf("(sl.len %s)", a.T), fmt.Sprintf("(sl.len %s)", b.T)
			ef := c.eltFn(sl.Elem())
			geta := fmt.Sprintf("(%s %s %s %s)", ef, arr, a.T, q)
			getb := fmt.Sprintf("(%s %s %s (- %s %s))", ef, arr, b.T, q, la)
			fr.assume(st, fmt.Sprintf("(forall ((%s Int)) (! (and (=> (and (<= 0 %s) (< %s %s)) (= (select %s %s) %s)) (=> (and (<= %s %s) (< %s (+ %s %s))) (= (select %s %s) %s))) :pattern ((select %s %s))))", q, q, q, la, inner, q, geta, la, q, q, la, lb, inner, q, getb, inner, q))
			fr.setElemHeap(st, key, sl.Elem(), arr, fmt.Sprintf("(store %s %s %s)", arr, nref, inner), nref)
			res := fmt.Sprintf("(mk-slice %s 0 (+ %s %s))", nref, la, lb)
			{
				// the same facts in accessor form, triggered by an element of a source slice: an element known of the old
				// slice is an element of the new one (consequences of the axiom above; they let a witness found for the old
				// slice serve as the witness for the new one when an existential has to be re-established)
				name := st.heap[key]
				c.n++
				q2 := fmt.Sprintf("i_q%d", c.n)
				fr.assume(st, fmt.Sprintf("(forall ((%s Int)) (! (=> (and (<= 0 %s) (< %s %s)) (= (%s %s %s %s) (%s %s %s %s))) :pattern ((%s %s %s %s))))",
					q2, q2, q2, la, ef, name, res, q2, ef, arr, a.T, q2, ef, arr, a.T, q2))
				c.n++
				q3 := fmt.Sprintf("i_q%d", c.n)
				fr.assume(st, fmt.Sprintf("(forall ((%s Int)) (! (=> (and (<= 0 %s) (< %s %s)) (= (%s %s %s (+ %s %s)) (%s %s %s %s))) :pattern ((%s %s %s %s))))",
					q3, q3, q3, lb, ef, name, res, la, q3, ef, arr, b.T, q3, ef, arr, b.T, q3))
			}
			// and the first appended element as a ground fact (append(xs, v) has no earlier read of the argument array that
			// could trigger the quantified form)
			fr.assume(st, fmt.Sprintf("(=> (> %s 0) (= (%s %s %s %s) (%s %s %s 0)))", lb, ef, st.heap[key], res, la, ef, arr, b.T))
			setRes(Val{res, x.Type()})
		case "delete":
			mt := x.Call.Args[0].Type().Underlying().(*types.Map)
			mv, kv2 := fr.val(x.Call.Args[0]), fr.val(x.Call.Args[1])
			kd, _, dom, _ := c.mapHeaps(st, mt)
			fr.obligeAt(st, "frame.map_write", "call", fmt.Sprintf("(or (= %s 0) %s)", mv.T, fr.mapWritePermission(st, mv.T, mt, x.Block())), x.Pos())
			st.heap[kd] = fmt.Sprintf("(ite (= %s 0) %s (store %s %s (store (select %s %s) %s false)))", mv.T, dom, dom, mv.T, dom, mv.T, kv2.T)
		case "ssa:deferstack":
			setRes(Val{c.fresh("ds", "U"), x.Type()})
		case "max", "min":
			if c.sortOf(x.Type()) == "Int" && len(x.Call.Args) >= 1 {
				acc := fr.val(x.Call.Args[0]).T
				for _, a := range x.Call.Args[1:] {
					v := fr.val(a).T
					if b.Name() == "max" {
						acc = fmt.Sprintf("(ite (>= %s %s) %s %s)", acc, v, acc, v)
					} else {
						acc = fmt.Sprintf("(ite (<= %s %s) %s %s)", acc, v, acc, v)
					}
				}
				setRes(Val{acc, x.Type()})
			} else {
				setRes(Val{c.fresh("builtin_"+b.Name(), c.sortOf(x.Type())), x.Type()})
			}
		default:
			setRes(Val{c.fresh("builtin_"+b.Name(), c.sortOf(x.Type())), x.Type()})
		}
		return true
	}
	if mc, ok := fr.closures[x.Call.Value]; ok && !x.Call.IsInvoke() {
		cfn := mc.Fn.(*ssa.Function)
		var args []Val
		for _, a := range x.Call.Args {
			args = append(args, fr.val(a))
		}
		rets := fr.inlineClosure(st, cfn, mc.Bindings, args, x.Block())
		if len(rets) > 0 {
			setRes(rets...)
		}
		return true
	}
	callee := x.Call.StaticCallee()
	if callee == nil && x.Call.IsInvoke() && x.Call.Method != nil && x.Call.Method.Name() == "Size" {
		// info.Size() of the FileInfo that os.Stat(p) returned: the length of the file's text in the ghost file system
		if p, ok := c.statPath[fr.val(x.Call.Value).T]; ok {
			setRes(Val{fmt.Sprintf("(slen (fsread %s))", p), x.Type()})
			return true
		}
	}
	if callee == nil {
		c.note("%s: dynamic call abstracted", fr.fname)
		setRes(fr.opaqueResults(st, "dyn", x.Type())...)
		return true
	}
	full := callee.String()
	if strings.HasPrefix(full, "maps.Copy[") {
		full = "maps.Copy"
	}
	switch full {
	case "(*sync.Map).Load", "(*sync.Map).Store", "(*sync.Map).Delete":
		if a, ok := fr.addrs[x.Call.Args[0]]; ok && a.Local == nil && !a.Elem && a.Base != nil && len(a.Path) == 1 {
			fk, _ := c.heapKey(a.Base, a.Path[0])
			kd, kv, dom, val := c.syncMapHeaps(st, fk)
			fr.obligeAt(st, "safety.nil", "sel", fmt.Sprintf("(not (= %s 0))", a.Ref), x.Pos())
			k := fr.val(x.Call.Args[1]).T
			switch full {
			case "(*sync.Map).Load":
				has := fmt.Sprintf("(select (select %s %s) %s)", dom, a.Ref, k)
				setRes(Val{fmt.Sprintf("(ite %s (select (select %s %s) %s) ifnil)", has, val, a.Ref, k), x.Call.Signature().Results().At(0).Type()}, Val{has, types.Typ[types.Bool]})
			case "(*sync.Map).Store":
				if !fr.writeAll {
					fr.obligeAt(st, "frame.write", "call", fr.writePerm(fk, a.Ref), x.Pos())
				}
				v := fr.val(x.Call.Args[2]).T
				st.heap[kd] = fmt.Sprintf("(store %s %s (store (select %s %s) %s true))", dom, a.Ref, dom, a.Ref, k)
				st.heap[kv] = fmt.Sprintf("(store %s %s (store (select %s %s) %s %s))", val, a.Ref, val, a.Ref, k, v)
			case "(*sync.Map).Delete":
				if !fr.writeAll {
					fr.obligeAt(st, "frame.write", "call", fr.writePerm(fk, a.Ref), x.Pos())
				}
				st.heap[kd] = fmt.Sprintf("(store %s %s (store (select %s %s) %s false))", dom, a.Ref, dom, a.Ref, k)
			}
			return true
		}
	case "unicode/utf8.DecodeRuneInString":
		// peephole: decode of s[lo:] is decode at offset lo of s
		if sl, ok := x.Call.Args[0].(*ssa.Slice); ok && sl.High == nil && c.sortOf(sl.X.Type()) == "Str" {
			s := fr.val(sl.X)
			lo := "0"
			if sl.Low != nil {
				lo = fr.val(sl.Low).T
			}
			fr.assume(st, fmt.Sprintf("(= (step %s %s) (+ %s (width %s %s)))", s.T, lo, lo, s.T, lo))
			emptyCase := fmt.Sprintf("(>= %s (slen %s))", lo, s.T)
			r := fmt.Sprintf("(ite %s 65533 (rune %s %s))", emptyCase, s.T, lo)
			w := fmt.Sprintf("(ite %s 0 (width %s %s))", emptyCase, s.T, lo)
			setRes(Val{r, types.Typ[types.Rune]}, Val{w, types.Typ[types.Int]})
			return true
		}
		s := fr.val(x.Call.Args[0])
		setRes(Val{fmt.Sprintf("(ite (= (slen %s) 0) 65533 (rune %s 0))", s.T, s.T), types.Typ[types.Rune]}, Val{fmt.Sprintf("(ite (= (slen %s) 0) 0 (width %s 0))", s.T, s.T), types.Typ[types.Int]})
		return true
	case "(github.com/shopspring/decimal.Decimal).Add":
		setRes(Val{fmt.Sprintf("(+ %s %s)", fr.val(x.Call.Args[0]).T, fr.val(x.Call.Args[1]).T), x.Type()})
		return true
	case "(github.com/shopspring/decimal.Decimal).Mul":
		setRes(Val{fmt.Sprintf("(dmul %s %s)", fr.val(x.Call.Args[0]).T, fr.val(x.Call.Args[1]).T), x.Type()})
		return true
	case "(github.com/shopspring/decimal.Decimal).Neg":
		setRes(Val{fmt.Sprintf("(- %s)", fr.val(x.Call.Args[0]).T), x.Type()})
		return true
	case "(github.com/shopspring/decimal.Decimal).Abs":
		a := fr.val(x.Call.Args[0]).T
		setRes(Val{fmt.Sprintf("(ite (< %s 0.0) (- %s) %s)", a, a, a), x.Type()})
		return true
	case "(github.com/shopspring/decimal.Decimal).IsNegative":
		setRes(Val{fmt.Sprintf("(< %s 0.0)", fr.val(x.Call.Args[0]).T), x.Type()})
		return true
	case "(github.com/shopspring/decimal.Decimal).StringFixed", "(github.com/shopspring/decimal.Decimal).Round", "(github.com/shopspring/decimal.Decimal).StringFixedBank", "(github.com/shopspring/decimal.Decimal).Truncate":
		// rendering / rounding to n places is lossless only if the value carries no more than n decimals (dscale).
		// Property C04 ("exact quantities survive display formats") raises that as an obligation at every such call.
		xv, nv := fr.val(x.Call.Args[0]).T, fr.val(x.Call.Args[1]).T
		if c.property == "C04" {
			phi := fmt.Sprintf("(<= (dscale %s) %s)", xv, nv)
			if e, ok := c.expOf[xv]; ok {
				// stated for quantities whose exponent can be negated in 32 bits (exponent > -2^31): the parser keeps
				// exponents within +-1000 (parseAmount#ensures.exponent_bounded); StringFixed cannot express 2^31 places
				phi = fmt.Sprintf("(=> (> %s (- 2147483648)) %s)", e, phi)
				c.note("%s: lossless.decimal is stated for quantities with exponent > -2^31 (the parser bounds exponents to +-1000)", fr.fname)
			}
			fr.obligeAt(st, "lossless.decimal", "call", phi, x.Pos())
		}
		if strings.HasSuffix(full, ".Round") || strings.HasSuffix(full, ".Truncate") {
			r := c.fresh("rounded", "Real")
			fr.assume(st, fmt.Sprintf("(=> (<= (dscale %s) %s) (= %s %s))", xv, nv, r, xv))
			setRes(Val{r, x.Type()})
		} else {
			setRes(Val{c.fresh("fixedstr", "Str"), x.Type()})
		}
		return true
	case "(github.com/shopspring/decimal.Decimal).Exponent":
		// the exponent is minus the number of decimals stored, which is at least the number of decimals the value needs
		e := c.fresh("exponent", "Int")
		if c.expOf == nil {
			c.expOf = map[string]string{}
		}
		c.expOf[fr.val(x.Call.Args[0]).T] = e
		fr.assume(st, fmt.Sprintf("(and (>= (- %s) (dscale %s)) (>= %s (- 2147483648)) (< %s 2147483648))", e, fr.val(x.Call.Args[0]).T, e, e))
		setRes(Val{e, x.Type()})
		return true
	case "os.ReadFile":
		// ghost file system: the bytes read are those of fsread(path) (assumption: the files do not change during one load)
		vs := fr.opaqueResults(st, "readfile", x.Type())
		pv := fr.val(x.Call.Args[0])
		bt := x.Call.Signature().Results().At(0).Type().Underlying().(*types.Slice) // []byte, spelled as the signature spells it (heap keys go by the type's name)
		r := fr.newRef(st, "readarr")
		key, arr := c.elemHeap(st, bt.Elem())
		inner := c.fresh("readinner", "(Array Int Int)")
		fr.setElemHeap(st, key, bt.Elem(), arr, fmt.Sprintf("(store %s %s %s)", arr, r, inner), r)
		fr.assume(st, fmt.Sprintf("(= (bstr %s (slen (fsread %s))) (fsread %s))", inner, pv.T, pv.T))
		vs[0] = Val{fmt.Sprintf("(mk-slice %s 0 (slen (fsread %s)))", r, pv.T), x.Call.Signature().Results().At(0).Type()}
		c.note("%s: os.ReadFile(p) returns the text fsread(p) of the ghost file system (files are assumed not to change during one load)", fr.fname)
		setRes(vs...)
		return true
	case "strings.Repeat":
		fr.obligeAt(st, "safety.repeat", "call", fmt.Sprintf("(>= %s 0)", fr.val(x.Call.Args[1]).T), x.Pos())
		r := c.fresh("repeated", "Str")
		if k, ok := x.Call.Args[0].(*ssa.Const); ok && k.Value != nil && k.Value.Kind() == constant.String {
			// a literal: keep the length linear (its byte count times n)
			fr.assume(st, fmt.Sprintf("(= (slen %s) (* %d %s))", r, len(constant.StringVal(k.Value)), fr.val(x.Call.Args[1]).T))
		}
		fr.assume(st, fmt.Sprintf("(= (slen %s) (* (slen %s) %s))", r, fr.val(x.Call.Args[0]).T, fr.val(x.Call.Args[1]).T))
		// repeating a one-byte string: every byte of the result is that byte
		c.n++
		fr.assume(st, fmt.Sprintf("(=> (= (slen %s) 1) (forall ((i_q%d Int)) (! (=> (and (<= 0 i_q%d) (< i_q%d (slen %s))) (= (sat %s i_q%d) (sat %s 0))) :pattern ((sat %s i_q%d)))))", fr.val(x.Call.Args[0]).T, c.n, c.n, c.n, r, r, c.n, fr.val(x.Call.Args[0]).T, r, c.n))
		setRes(Val{r, x.Type()})
		return true
	case "(github.com/shopspring/decimal.Decimal).IsZero":
		setRes(Val{fmt.Sprintf("(= %s 0.0)", fr.val(x.Call.Args[0]).T), x.Type()})
		return true
	case "maps.Copy":
		dst, src := fr.val(x.Call.Args[0]), fr.val(x.Call.Args[1])
		mt := x.Call.Args[0].Type().Underlying().(*types.Map)
		kd, kv, dom, val := c.mapHeaps(st, mt)
		ks, vs := c.sortOf(mt.Key()), c.sortOf(mt.Elem())
		fr.obligeAt(st, "frame.map_write", "call", fr.mapWritePermission(st, dst.T, mt, x.Block()), x.Pos())
		nd := c.fresh("copydom", fmt.Sprintf("(Array %s Bool)", ks))
		nv := c.fresh("copyval", fmt.Sprintf("(Array %s %s)", ks, vs))
		c.n++
		q := fmt.Sprintf("k_q%d", c.n)
		fr.assume(st, fmt.Sprintf("(forall ((%s %s)) (! (and (= (select %s %s) (or (select (select %s %s) %s) (select (select %s %s) %s))) (= (select %s %s) (ite (select (select %s %s) %s) (select (select %s %s) %s) (select (select %s %s) %s)))) :pattern ((select %s %s)) :pattern ((select %s %s))))",
			q, ks, nd, q, dom, dst.T, q, dom, src.T, q, nv, q, dom, src.T, q, val, src.T, q, val, dst.T, q, nd, q, nv, q))
		st.heap[kd] = fmt.Sprintf("(store %s %s %s)", dom, dst.T, nd)
		st.heap[kv] = fmt.Sprintf("(store %s %s %s)", val, dst.T, nv)
		return true
	case "strings.Split":
		sv := fr.val(x.Call.Args[0])
		if k, ok := x.Call.Args[1].(*ssa.Const); ok && k.Value != nil && constant.StringVal(k.Value) == "\n" {
			arrRef := fr.newRef(st, "splitarr")
			sl := x.Type().Underlying().(*types.Slice)
			key, arr := c.elemHeap(st, sl.Elem())
			inner := c.fresh("splitinner", "(Array Int Str)")
			c.n++
			q := fmt.Sprintf("k_q%d", c.n)
			fr.assume(st, fmt.Sprintf("(forall ((%s Int)) (! (=> (and (<= 0 %s) (< %s (NL %s))) (= (select %s %s) (substr %s (LS %s %s) (LE %s %s)))) :pattern ((select %s %s))))", q, q, q, sv.T, inner, q, sv.T, sv.T, q, sv.T, q, inner, q))
			fr.setElemHeap(st, key, sl.Elem(), arr, fmt.Sprintf("(store %s %s %s)", arr, arrRef, inner), arrRef)
			c.sortOf(x.Type())
			setRes(Val{fmt.Sprintf("(mk-slice %s 0 (NL %s))", arrRef, sv.T), x.Type()})
			return true
		}
		c.note("%s: strings.Split with non-newline separator abstracted", fr.fname)
		c.sortOf(x.Type())
		r := c.fresh("split", "Slice")
		fr.assume(st, fmt.Sprintf("(and (>= (sl.len %s) 1) (>= (sl.off %s) 0) (<= (sl.arr %s) %s))", r, r, r, fr.allocTerm(st)))
		{
			// every piece is a substring of the argument: no longer than it
			sl := x.Type().Underlying().(*types.Slice)
			_, arr := c.elemHeap(st, sl.Elem())
			ef := c.eltFn(sl.Elem())
			c.n++
			q := fmt.Sprintf("k_q%d", c.n)
			fr.assume(st, fmt.Sprintf("(forall ((%s Int)) (! (=> (and (<= 0 %s) (< %s (sl.len %s))) (<= (slen (%s %s %s %s)) (slen %s))) :pattern ((%s %s %s %s))))", q, q, q, r, ef, arr, r, q, sv.T, ef, arr, r, q))
		}
		if k, ok := x.Call.Args[1].(*ssa.Const); ok && k.Value != nil && len(constant.StringVal(k.Value)) >= 1 {
			// constant non-empty separator: the pieces are the ones of the mathematical split (prelude: splitcnt/splitoff/splitpiece)
			sl := x.Type().Underlying().(*types.Slice)
			_, arr := c.elemHeap(st, sl.Elem())
			ef := c.eltFn(sl.Elem())
			sep := fr.val(x.Call.Args[1])
			c.n++
			q := fmt.Sprintf("k_q%d", c.n)
			fr.assume(st, fmt.Sprintf("(= (sl.len %s) (splitcnt %s %s))", r, sv.T, sep.T))
			fr.assume(st, fmt.Sprintf("(forall ((%s Int)) (! (=> (and (<= 0 %s) (< %s (sl.len %s))) (= (%s %s %s %s) (splitpiece %s %s %s))) :pattern ((%s %s %s %s))))", q, q, q, r, ef, arr, r, q, sv.T, sep.T, q, ef, arr, r, q))
		}
		setRes(Val{r, x.Type()})
		return true
	case "strings.Index":
		sv, sep := fr.val(x.Call.Args[0]), fr.val(x.Call.Args[1])
		r := fmt.Sprintf("(sindex %s %s)", sv.T, sep.T)
		setRes(Val{r, x.Type()})
		return true
	case "strings.LastIndex", "strings.LastIndexAny", "strings.IndexAny", "strings.IndexByte", "strings.LastIndexByte", "strings.IndexRune":
		// where the match is, is not modelled: -1, or an offset at which the needle (one byte at least for the *Any /
		// *Byte / *Rune forms) fits inside the string
		sv := fr.val(x.Call.Args[0])
		r := c.fresh("found", "Int")
		need := "1"
		if full == "strings.LastIndex" {
			need = fmt.Sprintf("(slen %s)", fr.val(x.Call.Args[1]).T)
		}
		fr.assume(st, fmt.Sprintf("(and (>= %s (- 1)) (=> (>= %s 0) (<= (+ %s %s) (slen %s))))", r, r, r, need, sv.T))
		if full != "strings.LastIndex" {
			fr.assume(st, fmt.Sprintf("(< %s (slen %s))", r, sv.T))
		}
		setRes(Val{r, x.Type()})
		return true
	case "strings.HasPrefix":
		setRes(Val{fmt.Sprintf("(hasprefix %s %s)", fr.val(x.Call.Args[0]).T, fr.val(x.Call.Args[1]).T), x.Type()})
		return true
	case "unicode/utf8.RuneCountInString":
		setRes(Val{fmt.Sprintf("(rcount %s)", fr.val(x.Call.Args[0]).T), x.Type()})
		return true
	case "unicode/utf8.RuneLen":
		setRes(Val{fmt.Sprintf("(runelen %s)", fr.val(x.Call.Args[0]).T), x.Type()})
		return true
	case "sort.Strings":
		// in place: afterwards the slice holds sortedOf(its previous contents)
		sv := fr.val(x.Call.Args[0])
		sl := x.Call.Args[0].Type().Underlying().(*types.Slice)
		st2 := &seqType{sl.Elem()}
		before := fr.toSeq(sv, st2, &Env{fr: fr, st: st, old: st})
		so := c.sortedOfFn(st2)
		fr.obligeAt(st, "frame.write_elem", "call", fr.elemWritePerm(Addr{Ref: fmt.Sprintf("(sl.arr %s)", sv.T)}), x.Pos())
		key, arr := c.elemHeap(st, sl.Elem())
		es := c.sortOf(sl.Elem())
		inner := c.fresh("sortedinner", fmt.Sprintf("(Array Int %s)", es))
		c.n++
		q := fmt.Sprintf("i_q%d", c.n)
		fr.setElemHeap(st, key, sl.Elem(), arr, fmt.Sprintf("(store %s (sl.arr %s) %s)", arr, sv.T, inner), fmt.Sprintf("(sl.arr %s)", sv.T))
		ef := c.eltFn(sl.Elem())
		fr.assume(st, fmt.Sprintf("(forall ((%s Int)) (! (=> (and (<= 0 %s) (< %s (sl.len %s))) (= (%s %s %s %s) (sqat_%s (%s %s) %s))) :pattern ((%s %s %s %s))))",
			q, q, q, sv.T, ef, st.heap[key], sv.T, q, c.sortOf(st2), so, before.T, q, ef, st.heap[key], sv.T, q))
		// bridge: an element of the sequence before the sort is the element the slice held then (so that facts stated over
		// s[i] before the sort reach the witness index of the permutation)
		fr.assume(st, fmt.Sprintf("(forall ((%s Int)) (! (= (sqat_%s %s %s) (%s %s %s %s)) :pattern ((sqat_%s %s %s))))",
			q, c.sortOf(st2), before.T, q, ef, arr, sv.T, q, c.sortOf(st2), before.T, q))
		return true
	case "sort.Slice", "sort.SliceStable":
		// in place, by a comparator that is not executed: afterwards the slice holds some permutation of what it held
		// (every new element is an old one and every old element is still there; which order is not known)
		mi, isMI := x.Call.Args[0].(*ssa.MakeInterface)
		if !isMI {
			break
		}
		sl, isSl := mi.X.Type().Underlying().(*types.Slice)
		if !isSl {
			break
		}
		sv := fr.val(mi.X)
		fr.obligeAt(st, "frame.write_elem", "call", fmt.Sprintf("(or (= (sl.len %s) 0) %s)", sv.T, fr.elemWritePerm(Addr{Ref: fmt.Sprintf("(sl.arr %s)", sv.T)})), x.Pos())
		key, arr := c.elemHeap(st, sl.Elem())
		es := c.sortOf(sl.Elem())
		inner := c.fresh("permutedinner", fmt.Sprintf("(Array Int %s)", es))
		c.n++
		n := c.n
		src, dst := fmt.Sprintf("permSrc_%d", n), fmt.Sprintf("permDst_%d", n)
		c.defs = append(c.defs, fmt.Sprintf("(declare-fun %s (Int) Int)", src), fmt.Sprintf("(declare-fun %s (Int) Int)", dst))
		fr.setElemHeap(st, key, sl.Elem(), arr, fmt.Sprintf("(store %s (sl.arr %s) %s)", arr, sv.T, inner), fmt.Sprintf("(sl.arr %s)", sv.T))
		ef := c.eltFn(sl.Elem())
		name := st.heap[key]
		q := fmt.Sprintf("i_q%d", n)
		fr.assume(st, fmt.Sprintf("(forall ((%s Int)) (! (=> (and (<= 0 %s) (< %s (sl.len %s))) (and (<= 0 (%s %s)) (< (%s %s) (sl.len %s)) (= (%s %s %s %s) (%s %s %s (%s %s))))) :pattern ((%s %s %s %s))))",
			q, q, q, sv.T, src, q, src, q, sv.T, ef, name, sv.T, q, ef, arr, sv.T, src, q, ef, name, sv.T, q))
		fr.assume(st, fmt.Sprintf("(forall ((%s Int)) (! (=> (and (<= 0 %s) (< %s (sl.len %s))) (and (<= 0 (%s %s)) (< (%s %s) (sl.len %s)) (= (%s %s %s %s) (%s %s %s (%s %s))))) :pattern ((%s %s %s %s))))",
			q, q, q, sv.T, dst, q, dst, q, sv.T, ef, arr, sv.T, q, ef, name, sv.T, dst, q, ef, arr, sv.T, q))
		{
			// the same two facts over the sequence snapshots of the slice (before / after), for clauses stated with seq(...)
			st2 := &seqType{sl.Elem()}
			sn := c.sortOf(st2)
			seqOld := fmt.Sprintf("(mk-%s (select %s (sl.arr %s)) (sl.off %s) (sl.len %s))", sn, arr, sv.T, sv.T, sv.T)
			seqNew := fmt.Sprintf("(mk-%s (select %s (sl.arr %s)) (sl.off %s) (sl.len %s))", sn, name, sv.T, sv.T, sv.T)
			fr.assume(st, fmt.Sprintf("(forall ((%s Int)) (! (=> (and (<= 0 %s) (< %s (sl.len %s))) (= (sqat_%s %s %s) (sqat_%s %s (%s %s)))) :pattern ((sqat_%s %s %s))))",
				q, q, q, sv.T, sn, seqNew, q, sn, seqOld, src, q, sn, seqNew, q))
			fr.assume(st, fmt.Sprintf("(forall ((%s Int)) (! (=> (and (<= 0 %s) (< %s (sl.len %s))) (= (sqat_%s %s %s) (sqat_%s %s (%s %s)))) :pattern ((sqat_%s %s %s))))",
				q, q, q, sv.T, sn, seqOld, q, sn, seqNew, dst, q, sn, seqOld, q))
		}
		// the rest of the backing array is untouched
		c.n++
		sq, kq := fmt.Sprintf("s_q%d", c.n), fmt.Sprintf("k_q%d", c.n)
		fr.assume(st, fmt.Sprintf("(forall ((%s Slice) (%s Int)) (! (=> (and (= (sl.arr %s) (sl.arr %s)) (or (< (+ (sl.off %s) %s) (sl.off %s)) (>= (+ (sl.off %s) %s) (+ (sl.off %s) (sl.len %s))))) (= (%s %s %s %s) (%s %s %s %s))) :pattern ((%s %s %s %s))))",
			sq, kq, sq, sv.T, sq, kq, sv.T, sq, kq, sv.T, sv.T, ef, name, sq, kq, ef, arr, sq, kq, ef, name, sq, kq))
		c.note("%s: sort.Slice is modelled as an arbitrary in-place permutation (the comparator is not executed)", fr.fname)
		return true
	case "strconv.FormatUint", "strconv.Itoa", "strconv.FormatInt":
		// decimal rendering is injective: modelled as an uninterpreted function with a left inverse
		setRes(Val{fmt.Sprintf("(fmtint %s)", fr.val(x.Call.Args[0]).T), x.Type()})
		return true
	case "strings.TrimSuffix", "strings.TrimPrefix":
		// literal suffix/prefix only: the test is unrolled over its bytes
		if k, ok := x.Call.Args[1].(*ssa.Const); ok && k.Value != nil && k.Value.Kind() == constant.String {
			lit := constant.StringVal(k.Value)
			sv := fr.val(x.Call.Args[0]).T
			n := len(lit)
			conds := []string{fmt.Sprintf("(>= (slen %s) %d)", sv, n)}
			for i := 0; i < n; i++ {
				if full == "strings.TrimSuffix" {
					conds = append(conds, fmt.Sprintf("(= (sat %s (+ (- (slen %s) %d) %d)) %d)", sv, sv, n, i, lit[i]))
				} else {
					conds = append(conds, fmt.Sprintf("(= (sat %s %d) %d)", sv, i, lit[i]))
				}
			}
			cut := fmt.Sprintf("(substr %s 0 (- (slen %s) %d))", sv, sv, n)
			if full == "strings.TrimPrefix" {
				cut = fmt.Sprintf("(substr %s %d (slen %s))", sv, n, sv)
			}
			r := c.fresh("trimmed", "Str")
			fr.assume(st, fmt.Sprintf("(= %s (ite (and %s) %s %s))", r, strings.Join(conds, " "), cut, sv))
			setRes(Val{r, x.Type()})
			return true
		}
	case "strings.TrimLeft", "strings.TrimRight", "strings.TrimPrefix0":
		// the result is a suffix (TrimLeft) / prefix (TrimRight) of the argument
		sv := fr.val(x.Call.Args[0]).T
		if k, ok := x.Call.Args[1].(*ssa.Const); ok && full == "strings.TrimRight" && k.Value != nil && asciiOnly(constant.StringVal(k.Value)) {
			// constant ASCII cutset: the result is the prefix of length trimright_<bytes>(s): everything from there on is
			// in the cutset, the byte before it (if any) is not
			fn := c.trimRightFn(constant.StringVal(k.Value))
			setRes(Val{fmt.Sprintf("(substr %s 0 (%s %s))", sv, fn, sv), x.Type()})
			return true
		}
		if k, ok := x.Call.Args[1].(*ssa.Const); ok && full == "strings.TrimLeft" && k.Value != nil && asciiOnly(constant.StringVal(k.Value)) {
			// constant ASCII cutset: the result is the suffix from offset trimleft_<bytes>(s): every byte before it is in the
			// cutset, the byte at it (if any) is not
			fn := c.trimLeftFn(constant.StringVal(k.Value))
			setRes(Val{fmt.Sprintf("(substr %s (%s %s) (slen %s))", sv, fn, sv, sv), x.Type()})
			return true
		}
		r := c.fresh("trimmed", "Str")
		if full == "strings.TrimLeft" {
			fr.assume(st, fmt.Sprintf("(and (<= (slen %s) (slen %s)) (= %s (substr %s (- (slen %s) (slen %s)) (slen %s))))", r, sv, r, sv, sv, r, sv))
		} else {
			fr.assume(st, fmt.Sprintf("(and (<= (slen %s) (slen %s)) (= %s (substr %s 0 (slen %s))))", r, sv, r, sv, r))
		}
		setRes(Val{r, x.Type()})
		return true
	case "strings.TrimSpace":
		setRes(Val{fmt.Sprintf("(trimspace %s)", fr.val(x.Call.Args[0]).T), x.Type()})
		return true
	case "strings.ToLower":
		setRes(Val{fmt.Sprintf("(tolower %s)", fr.val(x.Call.Args[0]).T), x.Type()})
		return true
	case "unicode.IsLetter":
		setRes(Val{fmt.Sprintf("(unicodeIsLetter %s)", fr.val(x.Call.Args[0]).T), x.Type()})
		return true
	case "(*strings.Builder).WriteString", "(*strings.Builder).WriteByte", "(*strings.Builder).WriteRune", "(*strings.Builder).String", "(*strings.Builder).Len", "(*strings.Builder).Grow":
		if a, ok := fr.addrOf(st, x.Call.Args[0]); ok {
			cur := fr.load0(st, a, x.Pos())
			bt := x.Call.Args[0].Type().Underlying().(*types.Pointer).Elem()
			upd := func(t string) { fr.store(st, a, Val{t, bt}, x.Pos()) }
			switch full {
			case "(*strings.Builder).WriteString":
				arg := fr.val(x.Call.Args[1])
				upd(fmt.Sprintf("(sconcat %s %s)", cur.T, arg.T))
				setRes(Val{fmt.Sprintf("(slen %s)", arg.T), types.Typ[types.Int]}, Val{"ifnil", x.Call.Signature().Results().At(1).Type()})
			case "(*strings.Builder).WriteByte":
				arg := fr.val(x.Call.Args[1])
				upd(fmt.Sprintf("(sconcat %s (str1 %s))", cur.T, arg.T))
				c.sortOf(x.Call.Signature().Results().At(0).Type())
				setRes(Val{"ifnil", x.Call.Signature().Results().At(0).Type()})
			case "(*strings.Builder).WriteRune":
				arg := fr.val(x.Call.Args[1])
				upd(fmt.Sprintf("(sconcat %s (strofrune %s))", cur.T, arg.T))
				setRes(Val{fmt.Sprintf("(slen (strofrune %s))", arg.T), types.Typ[types.Int]}, Val{"ifnil", x.Call.Signature().Results().At(1).Type()})
			case "(*strings.Builder).String":
				setRes(Val{cur.T, types.Typ[types.String]})
			case "(*strings.Builder).Len":
				setRes(Val{fmt.Sprintf("(slen %s)", cur.T), types.Typ[types.Int]})
			case "(*strings.Builder).Grow":
			}
			if tu := x.Call.Signature().Results(); tu != nil && tu.Len() == 2 {
				c.sortOf(tu.At(1).Type())
			}
			return true
		}
	case "os.Stat":
		// follows symbolic links: the FileInfo describes the file whose text os.ReadFile(p) returns
		vs := fr.opaqueResults(st, "stat", x.Type())
		if c.statPath == nil {
			c.statPath = map[string]string{}
		}
		c.statPath[vs[0].T] = fr.val(x.Call.Args[0]).T
		c.note("%s: os.Stat(p).Size() is the length of fsread(p) (ghost file system)", fr.fname)
		setRes(vs...)
		return true
	case "fmt.Errorf", "errors.New":
		// a freshly made error is not nil (its text is opaque)
		c.sortOf(x.Type())
		e := c.fresh("newerr", "Iface")
		fr.assume(st, fmt.Sprintf("(not (= %s ifnil))", e))
		setRes(Val{e, x.Type()})
		return true
	case "strconv.Atoi":
		// decimal parsing: a function of the string (atoiok: it is a decimal integer in range; atoival: its value)
		c.sortOf(x.Call.Signature().Results().At(1).Type()) // declares the interface sort
		sv := fr.val(x.Call.Args[0])
		e := c.fresh("atoierr", "Iface")
		fr.assume(st, fmt.Sprintf("(= (= %s ifnil) (atoiok %s))", e, sv.T))
		setRes(Val{fmt.Sprintf("(ite (atoiok %s) (atoival %s) 0)", sv.T, sv.T), x.Call.Signature().Results().At(0).Type()}, Val{e, x.Call.Signature().Results().At(1).Type()})
		return true
	case "unicode.IsDigit":
		setRes(Val{fmt.Sprintf("(unicodeIsDigit %s)", fr.val(x.Call.Args[0]).T), x.Type()})
		return true
	}
	if callee.Blocks == nil || callee.Pkg == nil || !strings.HasPrefix(callee.Pkg.Pkg.Path(), "github.com/juev/hledger-lsp") {
		c.note("%s: external call %s abstracted", fr.fname, full)
		if x.Type() != nil {
			if vs := fr.opaqueResults(st, "ext", x.Type()); len(vs) > 0 {
				setRes(vs...)
			}
		}
		return true
	}
	key := funcKey(callee)
	var args []Val
	fr.pendingAddrArgs = map[int]Addr{}
	for i, a := range x.Call.Args {
		if ad, isAddr := fr.addrs[a]; isAddr {
			// the argument is the address of a local, field or slice element (&xs[i]): an inlined callee works on that location
			fr.pendingAddrArgs[i] = ad
			args = append(args, fr.addrVal(ad, a.Type()))
			continue
		}
		args = append(args, fr.val(a))
	}
	if callee.Pkg != c.pkg && c.cs.Funcs[key] == nil && !isLeaf(callee) {
		c.note("%s: call to %s (other package, not a leaf) abstracted", fr.fname, full)
		if vs := fr.opaqueResults(st, "ext", x.Type()); len(vs) > 0 {
			setRes(vs...)
		}
		return true
	}
	fc := c.cs.Funcs[key]
	if fc != nil && !fc.Pure && !fc.Trusted && fr.inCommute && callee.Blocks != nil && loopFree(callee) && fr.depth < 4 {
		fc = nil // order-independence runs execute loop-free callees exactly (a contract would give a fresh value per call)
	}
	if fc == nil && c.sweep && callee.Blocks != nil && !loopFree(callee) {
		// zero-annotation sweep: a callee with loops and no contract has unknown effects (everything it can reach is
		// havocked, its results are arbitrary)
		fcA := &FuncContract{Name: funcKey0(callee), Pkg: callee.Pkg.Pkg.Name(), Auto: true, LoopInv: map[int][]Clause{}, LoopDec: map[int]string{}, LoopMods: map[int][]string{}}
		var ok3 bool
		withPkg(fcA.Pkg, func() { ok3 = fr.applyContract(st, x, callee, fcA, key, args, setRes) })
		return ok3
	}
	if fc == nil || fc.Pure {
		// transparent
		rets := fr.inline(st, callee, args, x.Block())
		if len(rets) > 0 {
			setRes(rets...)
		}
		return true
	}
	// contract application (clauses are evaluated in the scope of the callee's package)
	var ok2 bool
	withPkg(fc.Pkg, func() { ok2 = fr.applyContract(st, x, callee, fc, key, args, setRes) })
	return ok2
}

func (fr *Frame) applyContract(st *State, x *ssa.Call, callee *ssa.Function, fc *FuncContract, key string, args []Val, setRes func(vs ...Val)) bool {
	c := fr.ctx
	binds := map[string]Val{}
	for i, p := range callee.Params {
		binds[p.Name()] = args[i]
	}
	for _, g := range fc.Ghost {
		ty := contractType(g[1])
		binds[g[0]] = Val{c.fresh("ghost_"+g[0], c.sortOf(ty)), ty}
	}
	// a *strings.Builder argument that is the address of one of the caller's own locations: for the duration of the call
	// the text lives in element 0 of a fresh one-element array (what "*sb" means in the callee's contract); it is written
	// back to the caller's location afterwards
	type bArg struct {
		ad  Addr
		ref string
		bt  types.Type
	}
	var bArgs []bArg
	for i, p := range callee.Params {
		pt, ok := p.Type().Underlying().(*types.Pointer)
		if !ok || !isBuilder(pt.Elem()) {
			continue
		}
		ad, isAddr := fr.pendingAddrArgs[i]
		if !isAddr {
			continue
		}
		cur := fr.load0(st, ad, x.Pos())
		r := fr.newRef(st, "bref")
		key, arr := c.elemHeap(st, pt.Elem())
		inner := c.fresh("binner", "(Array Int Str)")
		fr.assume(st, fmt.Sprintf("(= (select %s 0) %s)", inner, cur.T))
		fr.setElemHeap(st, key, pt.Elem(), arr, fmt.Sprintf("(store %s %s %s)", arr, r, inner), r)
		binds[p.Name()] = Val{r, p.Type()}
		bArgs = append(bArgs, bArg{ad, r, pt.Elem()})
	}
	fr.pendingAddrArgs = nil
	writeBackBuilders := func() {
		for _, b := range bArgs {
			_, arr := c.elemHeap(st, b.bt)
			fr.store(st, b.ad, Val{fmt.Sprintf("(%s %s (mk-slice %s 0 1) 0)", c.eltFn(b.bt), arr, b.ref), b.bt}, x.Pos())
		}
	}
	pre := st.clone()
	for k, rq := range fc.Requires {
		phi := fr.evalClause(rq.Src, &Env{fr: fr, st: st, old: pre, binds: binds, noLocals: true})
		fr.oblige(st, fmt.Sprintf("call[%s].requires.%s@%d", key, reqLabel(rq, k), c.prog.Fset.Position(x.Pos()).Line), phi, x.Pos())
	}
	assumeFunctional := func(res []Val) {
		if fc.Functional == "" || len(res) == 0 {
			return
		}
		sym, pts, rt := c.funcSym(callee, fc)
		var as []string
		for i, a := range args {
			v := a
			if st2, ok := pts[i].(*seqType); ok {
				v = fr.toSeq(a, st2, &Env{fr: fr, st: pre, old: pre})
			}
			as = append(as, v.T)
		}
		app := fmt.Sprintf("(%s %s)", sym, strings.Join(as, " "))
		r := res[0]
		if st2, ok := rt.(*seqType); ok {
			r = fr.toSeq(res[0], st2, &Env{fr: fr, st: st, old: pre})
		}
		fr.assume(st, fmt.Sprintf("(= %s %s)", r.T, app))
		c.note("%s: %s is used as a function of its arguments (spec function %s; justified by the purity scan, not proved)", fr.fname, key, fc.Functional)
	}
	assumeEnsures := func() {
		for _, en := range fc.Ensures {
			if c.refuted[key+"#ensures."+en.Label] {
				c.note("%s: clause %s#ensures.%s is a known finding (refuted on the real code) and is not assumed at this call", fr.fname, key, en.Label)
				continue
			}
			func() {
				defer func() {
					if r := recover(); r != nil {
						if msg, ok := r.(string); ok && strings.Contains(msg, "unknown name") {
							// the clause talks about locals of the callee (an internal assertion): nothing to assume at a call site
							c.note("%s: clause %s#ensures.%s mentions callee locals and is not assumed at call sites", fr.fname, key, en.Label)
							return
						}
						panic(r)
					}
				}()
				fr.assume(st, fr.evalClause(en.Src, &Env{fr: fr, st: st, old: pre, binds: binds, noLocals: true}))
			}()
		}
	}
	// havoc modifies
	var postVals []Val
	for _, m := range fc.Modifies {
		n, fi, ok := resolveModPath(callee, m)
		if !ok {
			panic("modifies: cannot resolve " + m)
		}
		basePath := m[:strings.LastIndex(m, ".")]
		pv := fr.evalExpr(basePath, &Env{fr: fr, st: pre, old: pre, binds: binds, noLocals: true})
		hk, ft := c.heapKey(n, fi)
		if !fr.writeAll {
			// a nil base names no location (the callee can only have written an object it allocated itself)
			fr.oblige(st, fmt.Sprintf("call[%s].frame.write[%s]@%d", key, m, c.prog.Fset.Position(x.Pos()).Line), fmt.Sprintf("(=> (not (= %s 0)) %s)", pv.T, fr.writePerm(hk, pv.T)), x.Pos())
		}
		if isSyncMap(ft) {
			kd, kv, dom, val := c.syncMapHeaps(st, hk)
			st.heap[kd] = fmt.Sprintf("(store %s %s %s)", dom, pv.T, c.fresh("postSMdom", "(Array Iface Bool)"))
			st.heap[kv] = fmt.Sprintf("(store %s %s %s)", val, pv.T, c.fresh("postSMval", "(Array Iface Iface)"))
			continue
		}
		arr := c.heapGet(st, hk, ft)
		nv := c.fresh("post_"+sanitize(m), c.sortOf(ft))
		for _, f := range c.typeInv(nv, ft, 0) {
			fr.assume(st, f)
		}
		postVals = append(postVals, Val{nv, ft})
		st.heap[hk] = fmt.Sprintf("(store %s %s %s)", arr, pv.T, nv)
	}
	defer func() {
		// whatever the callee stored into the fields it may modify was allocated by the time it returned
		for _, pvv := range postVals {
			for _, rp := range c.refPaths(pvv.T, pvv.Typ, 0) {
				fr.assume(st, strings.ReplaceAll(rp, "$B", fr.allocTerm(st)))
			}
		}
	}()
	// result
	var res []Val
	if tu, ok := callee.Signature.Results().Underlying().(*types.Tuple); ok {
		for i := 0; i < tu.Len(); i++ {
			r := Val{c.fresh("res_"+callee.Name(), c.sortOf(tu.At(i).Type())), tu.At(i).Type()}
			for _, f := range c.typeInv(r.T, r.Typ, 0) {
				fr.assume(st, f)
			}
			res = append(res, r)
		}
	}
	if _, clash := binds["result"]; len(res) == 1 && !clash {
		binds["result"] = res[0]
	}
	for i, v := range res {
		binds[fmt.Sprintf("result%d", i)] = v
	}
	if tu := callee.Signature.Results(); tu != nil {
		for i := 0; i < tu.Len(); i++ {
			if nm := tu.At(i).Name(); nm != "" && nm != "_" {
				binds[nm] = res[i]
			}
		}
	}
	if fc.Auto {
		// unknown effects: every heap array becomes arbitrary, the allocation counter only grows
		var ks []string
		for k := range c.heapSrt {
			if k != allocKey && !strings.HasPrefix(k, "IT") {
				ks = append(ks, k)
			}
		}
		sort.Strings(ks)
		for _, k := range ks {
			st.heap[k] = c.fresh("autoH", c.heapSrt[k])
		}
		before := fr.allocTerm(st)
		na := c.fresh("allocAfter", "Int")
		fr.assume(st, fmt.Sprintf("(>= %s %s)", na, before))
		fr.assume(st, epochCall(before, na))
		st.heap[allocKey] = na
		for _, r := range res {
			fr.assumeAllocated(st, r, na)
		}
		if len(res) > 0 {
			setRes(res...)
		}
		return true
	}
	if fc.NoEffect || fc.NoAlloc {
		binds["$allocBefore"] = Val{fr.allocTerm(st), types.Typ[types.Int]}
		for _, r := range res {
			fr.assumeAllocated(st, r, fr.allocTerm(st))
		}
		assumeEnsures()
		assumeFunctional(res)
		if len(res) > 0 {
			setRes(res...)
		}
		return true
	}
	{
		// the callee may allocate: counter is monotone
		before := fr.allocTerm(st)
		na := c.fresh("allocAfter", "Int")
		fr.assume(st, fmt.Sprintf("(>= %s %s)", na, before))
		fr.assume(st, epochCall(before, na))
		st.heap[allocKey] = na
		binds["$allocBefore"] = Val{before, types.Typ[types.Int]}
		for _, r := range res {
			fr.assumeAllocated(st, r, na)
		}
	}
	// maps the callee may modify: the caller must itself be allowed to modify them
	cRefs, cInner := fr.evalModMaps(fc.ModMaps, pre, binds, true)
	for i, m := range cRefs {
		alts := append([]string{fmt.Sprintf("(= %s 0)", m.term), fmt.Sprintf("(> %s %s)", m.term, fr.allocTerm(fr.entry))}, fr.permittedAlts(m.term, m.tn, fr.fnModMaps, fr.fnModInner)...)
		conj := []string{orOf(alts)}
		for _, lm := range append(append([]*loopMod{}, fr.curLoops...), fr.loopOf[x.Block()]...) {
			a2 := append([]string{fmt.Sprintf("(= %s 0)", m.term), fmt.Sprintf("(> %s %s)", m.term, lm.alloc)}, fr.permittedAlts(m.term, m.tn, lm.refs, lm.inner)...)
			conj = append(conj, orOf(a2))
		}
		if !fr.writeAll {
			fr.oblige(st, fmt.Sprintf("call[%s].frame.map_write[%d]@%d", key, i+1, c.prog.Fset.Position(x.Pos()).Line), "(and "+strings.Join(conj, " ")+" true)", x.Pos())
		}
	}
	for i, in := range cInner {
		// every inner map of the outer map must be writable by the caller
		it := in.ot.Elem().Underlying().(*types.Map)
		_, _, dom, val := c.mapHeaps(pre, in.ot)
		c.n++
		q := fmt.Sprintf("t_q%d", c.n)
		m := fmt.Sprintf("(select (select %s %s) %s)", val, in.outer, q)
		if !fr.writeAll {
			fr.oblige(st, fmt.Sprintf("call[%s].frame.map_write_inner[%d]@%d", key, i+1, c.prog.Fset.Position(x.Pos()).Line),
				fmt.Sprintf("(forall ((%s %s)) (! (=> (select (select %s %s) %s) (or (= %s 0) %s)) :pattern (%s)))", q, c.sortOf(in.ot.Key()), dom, in.outer, q, m, fr.mapWritePermission(st, m, it, x.Block()), m), x.Pos())
		}
	}
	var modElemArrs []string
	for _, e := range fc.ModElems {
		sv := fr.evalExpr(e, &Env{fr: fr, st: pre, old: pre, binds: binds, noLocals: true})
		modElemArrs = append(modElemArrs, fmt.Sprintf("(sl.arr %s)", sv.T))
		if !fr.writeAll {
			// an empty slice has no element the callee could write in place
			fr.oblige(st, fmt.Sprintf("call[%s].frame.write_elem[%s]@%d", key, e, c.prog.Fset.Position(x.Pos()).Line), fmt.Sprintf("(or (= (sl.len %s) 0) %s)", sv.T, fr.elemWritePerm(Addr{Ref: fmt.Sprintf("(sl.arr %s)", sv.T)})), x.Pos())
		}
	}
	{
		// maps and backing arrays: the callee may create new ones; existing ones are unchanged except those in its modifies
		before := binds["$allocBefore"].T
		var ks []string
		// only the heaps of types the callee can allocate (static scan of its code) or is allowed to modify change
		as := c.allocKeysOf(callee)
		touched := map[string]bool{}
		for _, m := range cRefs {
			touched["Mdom:"+m.tn], touched["Mval:"+m.tn] = true, true
		}
		for _, in := range cInner {
			kd, kv := mapKeyNames(in.ot)
			touched[kd], touched[kv] = true, true
			if it, ok := in.ot.Elem().Underlying().(*types.Map); ok {
				kd, kv = mapKeyNames(it)
				touched[kd], touched[kv] = true, true
			}
		}
		for k := range c.heapSrt {
			if strings.HasPrefix(k, "Mdom:") || strings.HasPrefix(k, "Mval:") || strings.HasPrefix(k, "E:") {
				if as.all || as.keys[k] || touched[k] || (strings.HasPrefix(k, "E:") && len(modElemArrs) > 0) {
					ks = append(ks, k)
				}
			}
		}
		sort.Strings(ks)
		for _, k := range ks {
			fr.havocHeapKey(st, k, before, cRefs, cInner, modElemArrs, "postH")
		}
	}
	assumeEnsures()
	assumeFunctional(res)
	writeBackBuilders()
	if len(res) > 0 {
		setRes(res...)
	}
	return true
}

// opaqueResults: the results of a call that is abstracted (library, dynamic or uncontracted cross-package call): arbitrary
// values that satisfy the invariants of their types (ranges of sized integers, well-formed slices, allocated references).
func (fr *Frame) opaqueResults(st *State, hint string, t types.Type) []Val {
	c := fr.ctx
	if t == nil {
		return nil
	}
	var ts []types.Type
	if tu, ok := t.(*types.Tuple); ok {
		for i := 0; i < tu.Len(); i++ {
			ts = append(ts, tu.At(i).Type())
		}
	} else {
		ts = []types.Type{t}
	}
	var vs []Val
	for _, ty := range ts {
		v := Val{c.fresh(hint, c.sortOf(ty)), ty}
		for _, f := range c.typeInv(v.T, ty, 0) {
			fr.assume(st, f)
		}
		fr.assumeAllocated(st, v, fr.allocTerm(st))
		vs = append(vs, v)
	}
	return vs
}

// mcardFn declares (once per key sort) the cardinality of a map's domain set.
func (c *Ctx) mcardFn(mt *types.Map) string {
	ks := c.sortOf(mt.Key())
	card := "mcard_" + sanitize(ks)
	if !c.dts[card] {
		c.dts[card] = true
		c.dtDecls = append(c.dtDecls, fmt.Sprintf("(declare-fun %s ((Array %s Bool)) Int)", card, ks),
			fmt.Sprintf("(assert (forall ((d (Array %s Bool))) (! (>= (%s d) 0) :pattern ((%s d)))))", ks, card, card),
			fmt.Sprintf("(assert (forall ((d (Array %s Bool)) (k %s)) (! (=> (select d k) (> (%s d) 0)) :pattern ((select d k) (%s d)))))", ks, ks, card, card),
			fmt.Sprintf("(assert (= (%s ((as const (Array %s Bool)) false)) 0))", card, ks),
			// inserting a new key adds one, re-inserting a present key changes nothing
			fmt.Sprintf("(assert (forall ((d (Array %s Bool)) (k %s)) (! (= (%s (store d k true)) (ite (select d k) (%s d) (+ (%s d) 1))) :pattern ((%s (store d k true))))))", ks, ks, card, card, card, card))
	}
	return card
}

// mtrueFn declares (once per key sort) the number of keys of a map[K]bool that are present with the value true:
// mtrue_K(domain set, value array). Used for counters computed by ranging over such a map.
func (c *Ctx) mtrueFn(mt *types.Map) string {
	ks := c.sortOf(mt.Key())
	name := "mtrue_" + sanitize(ks)
	if !c.dts[name] {
		c.dts[name] = true
		wit := "mtruewit_" + sanitize(ks)
		d, v := fmt.Sprintf("(d (Array %s Bool))", ks), fmt.Sprintf("(v (Array %s Bool))", ks)
		c.dtDecls = append(c.dtDecls,
			fmt.Sprintf("(declare-fun %s ((Array %s Bool) (Array %s Bool)) Int)", name, ks, ks),
			fmt.Sprintf("(declare-fun %s ((Array %s Bool) (Array %s Bool)) %s)", wit, ks, ks, ks),
			fmt.Sprintf("(assert (forall (%s %s) (! (>= (%s d v) 0) :pattern ((%s d v)))))", d, v, name, name),
			fmt.Sprintf("(assert (forall (%s) (! (= (%s ((as const (Array %s Bool)) false) v) 0) :pattern ((%s ((as const (Array %s Bool)) false) v)))))", v, name, ks, name, ks),
			// a key enters the domain / leaves it / its value changes
			fmt.Sprintf("(assert (forall (%s %s (k %s)) (! (= (%s (store d k true) v) (+ (%s d v) (ite (select d k) 0 (ite (select v k) 1 0)))) :pattern ((%s (store d k true) v)))))", d, v, ks, name, name, name),
			fmt.Sprintf("(assert (forall (%s %s (k %s)) (! (= (%s (store d k false) v) (- (%s d v) (ite (and (select d k) (select v k)) 1 0))) :pattern ((%s (store d k false) v)))))", d, v, ks, name, name, name),
			fmt.Sprintf("(assert (forall (%s %s (k %s) (b Bool)) (! (= (%s d (store v k b)) (+ (%s d v) (ite (select d k) (- (ite b 1 0) (ite (select v k) 1 0)) 0))) :pattern ((%s d (store v k b))))))", d, v, ks, name, name, name),
			// two domains with different counts differ at a witness key
			fmt.Sprintf("(assert (forall ((d1 (Array %s Bool)) (d2 (Array %s Bool)) %s) (! (or (= (%s d1 v) (%s d2 v)) (not (= (select d1 (%s d1 d2)) (select d2 (%s d1 d2))))) :pattern ((%s d1 v) (%s d2 v)))))", ks, ks, v, name, name, wit, wit, name, name))
	}
	return name
}

func asciiOnly(s string) bool {
	for i := 0; i < len(s); i++ {
		if s[i] >= 128 {
			return false
		}
	}
	return len(s) > 0
}

// trimRightFn declares (once) the spec function of strings.TrimRight(s, cutset) for a constant ASCII cutset: the length
// of the result.
func (c *Ctx) trimRightFn(cutset string) string {
	name := "trimright"
	var in []string
	for i := 0; i < len(cutset); i++ {
		name += fmt.Sprintf("_%02x", cutset[i])
		in = append(in, fmt.Sprintf("(= c %d)", cutset[i]))
	}
	if !c.dts[name] {
		c.dts[name] = true
		cut := "(or " + strings.Join(in, " ") + ")"
		if len(in) == 1 {
			cut = in[0]
		}
		c.dtDecls = append(c.dtDecls,
			fmt.Sprintf("(declare-fun %s (Str) Int)", name),
			fmt.Sprintf("(define-fun %s_in ((c Int)) Bool %s)", name, cut),
			fmt.Sprintf("(assert (forall ((s Str)) (! (and (<= 0 (%s s)) (<= (%s s) (slen s)) (=> (> (%s s) 0) (not (%s_in (sat s (- (%s s) 1)))))) :pattern ((%s s)))))", name, name, name, name, name, name),
			fmt.Sprintf("(assert (forall ((s Str) (i Int)) (! (=> (and (<= (%s s) i) (< i (slen s))) (%s_in (sat s i))) :pattern ((%s s) (sat s i)))))", name, name, name))
	}
	return name
}

// trimLeftFn: the number of leading bytes strings.TrimLeft(s, cutset) removes, for a constant ASCII cutset.
func (c *Ctx) trimLeftFn(cutset string) string {
	name := "trimleft"
	var in []string
	for i := 0; i < len(cutset); i++ {
		name += fmt.Sprintf("_%02x", cutset[i])
		in = append(in, fmt.Sprintf("(= c %d)", cutset[i]))
	}
	if !c.dts[name] {
		c.dts[name] = true
		cut := "(or " + strings.Join(in, " ") + ")"
		if len(in) == 1 {
			cut = in[0]
		}
		c.dtDecls = append(c.dtDecls,
			fmt.Sprintf("(declare-fun %s (Str) Int)", name),
			fmt.Sprintf("(define-fun %s_in ((c Int)) Bool %s)", name, cut),
			fmt.Sprintf("(assert (forall ((s Str)) (! (and (<= 0 (%s s)) (<= (%s s) (slen s)) (=> (< (%s s) (slen s)) (not (%s_in (sat s (%s s)))))) :pattern ((%s s)))))", name, name, name, name, name, name),
			fmt.Sprintf("(assert (forall ((s Str) (i Int)) (! (=> (and (<= 0 i) (< i (%s s))) (%s_in (sat s i))) :pattern ((%s s) (sat s i)))))", name, name, name))
	}
	return name
}

func isByteSlice(t types.Type) bool {
	sl, ok := t.Underlying().(*types.Slice)
	if !ok {
		return false
	}
	b, ok := sl.Elem().Underlying().(*types.Basic)
	return ok && b.Kind() == types.Uint8
}

// assumeAllocated: a reference (or slice) produced by a callee was allocated no later than bound.
func (fr *Frame) assumeAllocated(st *State, r Val, bound string) {
	if r.Typ == nil {
		return
	}
	if isRefType(r.Typ) {
		// allocated no later than bound, and so was everything it held when it was allocated
		fr.assume(st, fmt.Sprintf("(and (<= %s %s) (<= (epochOf %s) %s))", r.T, bound, r.T, bound))
	}
	if _, ok := r.Typ.Underlying().(*types.Slice); ok {
		fr.assume(st, fmt.Sprintf("(and (<= (sl.arr %s) %s) (>= (sl.len %s) 0) (>= (sl.off %s) 0))", r.T, bound, r.T, r.T))
	}
}

func (fr *Frame) inline(st *State, callee *ssa.Function, args []Val, blk *ssa.BasicBlock) []Val {
	c := fr.ctx
	if fr.depth > 8 {
		panic("inline depth exceeded at " + funcKey(callee))
	}
	nf := fr.child(callee)
	nf.curLoops = append(append([]*loopMod{}, fr.curLoops...), fr.loopOf[blk]...)
	for i, p := range callee.Params {
		if ad, ok := fr.pendingAddrArgs[i]; ok {
			nf.addrs[p] = ad
			continue
		}
		nf.vals[p] = args[i]
	}
	fr.pendingAddrArgs = nil
	// run on the caller's state (shared heap, private cells)
	sub := st.clone()
	nf.run(sub)
	if len(nf.rets) == 0 {
		return nil
	}
	// merge return states back into st
	var ins []edge
	for _, r := range nf.rets {
		ins = append(ins, edge{nil, r.st})
	}
	var merged *State
	var vals []Val
	if len(ins) == 1 {
		merged = ins[0].st
		vals = nf.rets[0].vals
	} else {
		pcs := make([]string, len(ins))
		for i, e := range ins {
			pcs[i] = e.st.pc
		}
		merged = nf.merge(ins, callee.Blocks[0])
		nres := len(nf.rets[0].vals)
		for k := 0; k < nres; k++ {
			t := nf.rets[len(ins)-1].vals[k].T
			for i := len(ins) - 2; i >= 0; i-- {
				t = fmt.Sprintf("(ite %s %s %s)", pcs[i], nf.rets[i].vals[k].T, t)
			}
			m := c.fresh("ret_"+callee.Name(), c.sortOf(nf.rets[0].vals[k].Typ))
			c.defs = append(c.defs, fmt.Sprintf("(assert (= %s %s))", m, t))
			vals = append(vals, Val{m, nf.rets[0].vals[k].Typ})
		}
	}
	// copy back heap and pc, and the caller's own cells: the callee may have written them through an address it was
	// handed (a *strings.Builder or an out-parameter pointing at a local). Until session 4 the caller's cells were kept
	// as they were before the call, which silently dropped such writes (soundness slip 6, DESIGN 9.13).
	st.pc = merged.pc
	for k, v := range merged.heap {
		st.heap[k] = v
	}
	for k := range st.cells {
		if v, ok := merged.cells[k]; ok {
			st.cells[k] = v
		}
	}
	return vals
}

// execBody runs one iteration of the loop with header h from state st with the map-range key forced; it returns the
// merged state at the back edges, or false if the body can leave the loop other than through the header test.
func (fr *Frame) execBody(h *ssa.BasicBlock, body map[*ssa.BasicBlock]bool, st0 *State, key string, isBack func(a, b *ssa.BasicBlock) bool) (*State, bool) {
	var order []*ssa.BasicBlock
	seen := map[*ssa.BasicBlock]bool{}
	var dfs func(b *ssa.BasicBlock)
	dfs = func(b *ssa.BasicBlock) {
		seen[b] = true
		for _, s := range b.Succs {
			if body[s] && !seen[s] && !isBack(b, s) {
				dfs(s)
			}
		}
		order = append(order, b)
	}
	dfs(h)
	for i, j := 0, len(order)-1; i < j; i, j = i+1, j-1 {
		order[i], order[j] = order[j], order[i]
	}
	incoming := map[*ssa.BasicBlock][]edge{h: {{nil, st0}}}
	var backs []edge
	fr.forcedKey = key
	fr.inCommute = true
	defer func() { fr.inCommute = false }()
	okFlow := true
	for _, b := range order {
		ins := incoming[b]
		if len(ins) == 0 {
			continue
		}
		st := fr.merge(ins, b)
		for _, in := range b.Instrs {
			fr.step(st, in)
		}
		last := b.Instrs[len(b.Instrs)-1]
		send := func(to *ssa.BasicBlock, s2 *State) {
			if to == h {
				backs = append(backs, edge{b, s2})
				return
			}
			if !body[to] {
				if b != h {
					okFlow = false // break / return inside the body
				}
				return
			}
			if isBack(b, to) {
				okFlow = false // inner loop: not supported by the spike
				return
			}
			incoming[to] = append(incoming[to], edge{b, s2})
		}
		switch t := last.(type) {
		case *ssa.If:
			cv := fr.val(t.Cond)
			s1, s2 := st.clone(), st.clone()
			fr.branch(s1, cv.T)
			fr.branch(s2, fmt.Sprintf("(not %s)", cv.T))
			send(b.Succs[0], s1)
			send(b.Succs[1], s2)
		case *ssa.Jump:
			send(b.Succs[0], st)
		default:
			okFlow = false
		}
	}
	if !okFlow || len(backs) == 0 {
		return nil, false
	}
	return fr.merge(backs, h), true
}

var commuteLocalDef = regexp.MustCompile(`^\(assert \((=>|=) \(?(pc|pe|m|mH|sv|ret|variant|hvH)_`)

func (fr *Frame) checkCommutes(h *ssa.BasicBlock, ord int, st *State, isBack func(a, b *ssa.BasicBlock) bool) {
	c := fr.ctx
	var it *iterInfo
	for _, in := range h.Instrs {
		if nx, ok := in.(*ssa.Next); ok {
			if ii, ok := fr.iters[nx.Iter]; ok && ii.mt != nil {
				it = &ii
			}
		}
	}
	if it == nil {
		return
	}
	body := naturalLoop(h, isBack)
	ks := c.sortOf(it.mt.Key())
	// the four what-if executions below must not leave their definitions in the queries of the obligations that follow
	// (path conditions, merge and return values, loop frames of inner loops; definitions of cached objects - string
	// literals, initial heaps, spec functions - stay, their names may be used again)
	nDefs := len(c.defs)
	defer func() {
		kept := c.defs[:nDefs:nDefs]
		for _, d := range c.defs[nDefs:] {
			if !commuteLocalDef.MatchString(d) {
				kept = append(kept, d)
			}
		}
		c.defs = kept
	}()
	k1, k2 := c.fresh("ck1", ks), c.fresh("ck2", ks)
	base := st.clone()
	_, _, dom, _ := c.mapHeaps(base, it.mt)
	fr.assume(base, fmt.Sprintf("(and (select (select %s %s) %s) (select (select %s %s) %s) (not (= %s %s)))", dom, it.ref, k1, dom, it.ref, k2, k1, k2))
	a1, ok := fr.execBody(h, body, base.clone(), k1, isBack)
	if !ok {
		// the body leaves the loop early or contains an inner loop: order independence cannot be decided by comparing
		// two iterations; reported as an undischarged obligation (use "loop N nocommute <reason>" to opt out explicitly)
		c.note("%s: loop %d: body leaves the loop or has an inner loop; order independence undecided", fr.fname, ord)
		fr.inCommute = false
		fr.oblige(base, fmt.Sprintf("loop%d.commutes", ord), "false", h.Instrs[0].Pos())
		return
	}
	a12, ok := fr.execBody(h, body, a1, k2, isBack)
	if !ok {
		return
	}
	b2, ok := fr.execBody(h, body, base.clone(), k2, isBack)
	if !ok {
		return
	}
	b21, ok := fr.execBody(h, body, b2, k1, isBack)
	if !ok {
		return
	}
	var eqs []string
	sortedVars := map[string]bool{}
	if fr.fc != nil {
		for _, v := range fr.fc.LoopSorted[ord] {
			sortedVars[v] = true
		}
	}
	baseAlloc := fr.allocTerm(base)
	a12keys := map[cellKey]bool{}
	for k := range a12.cells {
		a12keys[k] = true
	}
	for _, k := range sortedCellKeys(a12keys) {
		v := a12.cells[k]
		if body[k.a.Block()] {
			continue // per-iteration locals
		}
		w, ok := b21.cells[k]
		if !ok || w == v {
			continue
		}
		et := c.typeAtStr(k.a.Type().(*types.Pointer).Elem(), k.path)
		if sl, isSl := et.Underlying().(*types.Slice); isSl {
			st2 := &seqType{sl.Elem()}
			qa := fr.toSeq(Val{v, et}, st2, &Env{fr: fr, st: a12, old: a12})
			qb := fr.toSeq(Val{w, et}, st2, &Env{fr: fr, st: b21, old: b21})
			if sortedVars[k.a.Comment] {
				so := c.sortedOfFn(st2)
				eqs = append(eqs, fmt.Sprintf("(= (%s %s) (%s %s))", so, qa.T, so, qb.T))
				fr.requireSortedUse(h, body, k.a, ord)
			} else {
				// slices are compared as sequences (same length, same elements in the same order)
				c.n++
				q := fmt.Sprintf("i_q%d", c.n)
				sn := c.sortOf(st2)
				eqs = append(eqs, fmt.Sprintf("(and (= (sq.len %s) (sq.len %s)) (forall ((%s Int)) (=> (and (<= 0 %s) (< %s (sq.len %s))) (= (sqat_%s %s %s) (sqat_%s %s %s)))))", qa.T, qb.T, q, q, q, qa.T, sn, qa.T, q, sn, qb.T, q))
			}
			continue
		}
		eqs = append(eqs, fmt.Sprintf("(= %s %s)", v, w))
	}
	keys := map[string]bool{}
	for k := range a12.heap {
		keys[k] = true
	}
	for k := range b21.heap {
		keys[k] = true
	}
	for _, k := range sortedStrKeys(keys) {
		if strings.HasPrefix(k, "IT") || k == allocKey {
			continue
		}
		v, w := c.heapGetSort(a12, k, c.heapSrt[k]), c.heapGetSort(b21, k, c.heapSrt[k])
		if v == w {
			continue
		}
		if strings.HasPrefix(k, "Mval:") {
			// the observable content of a map: values at the keys of its domain (the raw value array at absent keys is
			// meaningless and not constrained by loop invariants, which speak about reads)
			kd := "Mdom:" + k[len("Mval:"):]
			if f := strings.Fields(c.heapSrt[k]); len(f) >= 4 && strings.HasPrefix(c.heapSrt[k], "(Array Int (Array ") && !strings.HasPrefix(f[3], "(") {
				if d1, ok := a12.heap[kd]; ok || c.heap0[kd] != "" {
					if !ok {
						d1 = c.heapGetSort(a12, kd, c.heapSrt[kd])
					}
					c.n++
					q, qk := fmt.Sprintf("r_q%d", c.n), fmt.Sprintf("k_q%d", c.n)
					eqs = append(eqs, fmt.Sprintf("(forall ((%s Int) (%s %s)) (=> (and (<= %s %s) (select (select %s %s) %s)) (= (select (select %s %s) %s) (select (select %s %s) %s))))", q, qk, f[3], q, baseAlloc, d1, q, qk, v, q, qk, w, q, qk))
					continue
				}
			}
		}
		if strings.HasPrefix(k, "E:") || strings.HasPrefix(c.heapSrt[k], "(Array Int ") {
			// objects allocated by the two runs have different references: compare the objects that existed before the
			// two iterations (a fresh object that is linked into an old one is compared through the old location, where
			// the two runs hold different references and the comparison fails)
			c.n++
			q := fmt.Sprintf("r_q%d", c.n)
			eqs = append(eqs, fmt.Sprintf("(forall ((%s Int)) (=> (<= %s %s) (= (select %s %s) (select %s %s))))", q, q, baseAlloc, v, q, w, q))
			continue
		}
		eqs = append(eqs, fmt.Sprintf("(= %s %s)", v, w))
	}
	sort.Strings(eqs)
	goal := "true"
	if len(eqs) > 0 {
		goal = "(and " + strings.Join(eqs, " ") + " true)"
	}
	both := base.clone()
	both.pc = fmt.Sprintf("(and %s %s)", a12.pc, b21.pc)
	if fr.sortedUseBad {
		goal = "false"
		fr.sortedUseBad = false
	}
	fr.oblige(both, fmt.Sprintf("loop%d.commutes", ord), goal, h.Instrs[0].Pos())
}

// sortedOfFn declares the spec function "the sorted rearrangement of a sequence" with the two facts the
// order-independence obligations need: it depends only on the elements (extensionality) and it is invariant under
// swapping the last two elements (adjacent transpositions of appends generate all orders).
func (c *Ctx) sortedOfFn(st *seqType) string {
	sn := c.sortOf(st)
	name := "sortedOf_" + sn
	if !c.dts[name] {
		c.dts[name] = true
		at := "sqat_" + sn
		c.dtDecls = append(c.dtDecls, fmt.Sprintf("(declare-fun %s (%s) %s)", name, sn, sn),
			fmt.Sprintf("(assert (forall ((q %s)) (! (= (sq.len (%s q)) (sq.len q)) :pattern ((%s q)))))", sn, name, name),
			fmt.Sprintf("(assert (forall ((a %s) (b %s)) (! (=> (and (= (sq.len a) (sq.len b)) (forall ((i Int)) (=> (and (<= 0 i) (< i (sq.len a))) (= (%s a i) (%s b i))))) (= (%s a) (%s b))) :pattern ((%s a) (%s b)))))", sn, sn, at, at, name, name, name, name),
			// sorting permutes: every element of the sorted sequence is an element of the original (witness index srcIdx)
			fmt.Sprintf("(declare-fun srcIdx_%s (%s Int) Int)", sn, sn),
			fmt.Sprintf("(assert (forall ((q %s) (i Int)) (! (=> (and (<= 0 i) (< i (sq.len q))) (and (<= 0 (srcIdx_%s q i)) (< (srcIdx_%s q i) (sq.len q)) (= (%s (%s q) i) (%s q (srcIdx_%s q i))))) :pattern ((%s (%s q) i)))))", sn, sn, sn, at, name, at, sn, at, name),
			fmt.Sprintf("(assert (forall ((a %s) (b %s)) (! (=> (and (= (sq.len a) (sq.len b)) (>= (sq.len a) 2) (forall ((i Int)) (=> (and (<= 0 i) (< i (- (sq.len a) 2))) (= (%s a i) (%s b i)))) (= (%s a (- (sq.len a) 2)) (%s b (- (sq.len a) 1))) (= (%s a (- (sq.len a) 1)) (%s b (- (sq.len a) 2)))) (= (%s a) (%s b))) :pattern ((%s a) (%s b)))))", sn, sn, at, at, at, at, at, at, name, name, name, name))
	}
	return name
}

// requireSortedUse: a slice compared "up to sorting" must be sorted before anything else reads it: the first use of the
// variable after the loop has to be the argument of a sort by a total order on the elements (sort.Strings, sort.Ints,
// slices.Sort): sort.Slice / sort.SliceStable with a comparator leave ties in arrival order and do not qualify.
func (fr *Frame) requireSortedUse(h *ssa.BasicBlock, body map[*ssa.BasicBlock]bool, a *ssa.Alloc, ord int) {
	ok := false
	seenB := map[*ssa.BasicBlock]bool{}
	var walk func(b *ssa.BasicBlock) bool
	walk = func(b *ssa.BasicBlock) bool { // true: a use was found (and judged) on this path
		if seenB[b] || body[b] {
			return false
		}
		seenB[b] = true
		for _, in := range b.Instrs {
			if u, isU := in.(*ssa.UnOp); isU && u.X == ssa.Value(a) {
				// the loaded value must feed a sort call only
				refs := u.Referrers()
				good := refs != nil && len(*refs) > 0
				if good {
					for _, r := range *refs {
						call, isCall := r.(*ssa.Call)
						if !isCall || call.Call.StaticCallee() == nil {
							good = false
							break
						}
						if !totalOrderSort(call.Call.StaticCallee().String()) {
							good = false
						}
					}
				}
				ok = good
				return true
			}
		}
		for _, s := range b.Succs {
			if walk(s) {
				return true
			}
		}
		return false
	}
	for _, s := range h.Succs {
		if !body[s] {
			walk(s)
		}
	}
	if !ok {
		fr.ctx.note("%s: loop %d: variable %s is declared 'sorted' but its first use after the loop is not a sort call", fr.fname, ord, a.Comment)
		fr.sortedUseBad = true
	}
}

func (fr *Frame) oldState() *State {
	if fr.callEntry != nil {
		return fr.callEntry
	}
	return fr.entry
}

// inlineClosure executes a locally made closure (loop-free) on the caller's state; its free variables are the
// captured cells of the enclosing frame, so writes to them are visible to the caller.
func (fr *Frame) inlineClosure(st *State, cfn *ssa.Function, bindings []ssa.Value, args []Val, blk *ssa.BasicBlock) []Val {
	nf := fr.child(cfn)
	nf.curLoops = append(append([]*loopMod{}, fr.curLoops...), fr.loopOf[blk]...)
	for i, p := range cfn.Params {
		nf.vals[p] = args[i]
	}
	// a function literal with loops is inlined with the loop annotations "closure N loop M ..." of the enclosing
	// function's contract; old() in those annotations is the state at this call of the literal
	if i := strings.LastIndex(cfn.Name(), "$"); i >= 0 && fr.fc != nil {
		if n, err := strconv.Atoi(cfn.Name()[i+1:]); err == nil && fr.fc.Closures[n] != nil {
			nf.fc = fr.fc.Closures[n]
			nf.closureLoops = true
			nf.iterPfx = fr.iterPfx + "c" + cfn.Name()[i+1:] + "_"
			nf.fname = fr.fname + cfn.Name()[i:]
			nf.callEntry = st.clone()
			nf.commute = fr.commute
			nf.freeNames = map[string]ssa.Value{}
			for _, fv := range cfn.FreeVars {
				nf.freeNames[fv.Name()] = fv
			}
		}
	}
	captured := map[*ssa.Alloc]bool{}
	for i, fv := range cfn.FreeVars {
		if a, ok := fr.addrs[bindings[i]]; ok {
			nf.addrs[fv] = a
			if a.Local != nil {
				captured[a.Local] = true
			}
		} else {
			nf.vals[fv] = fr.val(bindings[i])
		}
	}
	sub := st.clone()
	nf.run(sub)
	if len(nf.rets) == 0 {
		return nil
	}
	var ins []edge
	for _, r := range nf.rets {
		ins = append(ins, edge{nil, r.st})
	}
	merged := nf.merge(ins, cfn.Blocks[0])
	st.pc = merged.pc
	for k, v := range merged.heap {
		st.heap[k] = v
	}
	for k, v := range merged.cells {
		if captured[k.a] {
			st.cells[k] = v
		}
	}
	if len(nf.rets[0].vals) == 0 {
		return nil
	}
	// single return value merge (closures of this code base return at most one value)
	var vals []Val
	for k := range nf.rets[0].vals {
		t := nf.rets[len(ins)-1].vals[k].T
		for i := len(ins) - 2; i >= 0; i-- {
			t = fmt.Sprintf("(ite %s %s %s)", nf.rets[i].st.pc, nf.rets[i].vals[k].T, t)
		}
		vals = append(vals, Val{t, nf.rets[0].vals[k].Typ})
	}
	return vals
}

// totalOrderSort: sorts whose result is a function of the multiset of elements.
func totalOrderSort(callee string) bool {
	switch callee {
	case "sort.Strings", "sort.Ints", "sort.Float64s":
		return true
	}
	return strings.HasPrefix(callee, "slices.Sort[")
}
