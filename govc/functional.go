package main

// "functional f": the Go function computes a mathematical function of its arguments. This is justified by a
// mechanical purity scan (no map iteration, no mutable globals, no clock/IO, no pointer or map parameters, same for
// every repository callee), not by a proof, and is listed as an assumption in evidence. At call sites the result is
// equated with the uninterpreted spec function f applied to the arguments (slices as mathematical sequences).

import (
	"fmt"
	"go/types"
	"sort"
	"strings"

	"golang.org/x/tools/go/ssa"
)

var pureExternal = map[string]bool{"strings": true, "unicode": true, "unicode/utf8": true, "strconv": true, "sort": true, "slices": true, "maps": false,
	"github.com/shopspring/decimal": true, "fmt": true, "errors": true, "math": true, "path/filepath": true, "regexp": true}

// purityProblems returns the reasons why fn cannot be treated as a function of its arguments (nil: none found).
func (c *Ctx) purityProblems(fn *ssa.Function, seen map[*ssa.Function]bool, depth int) []string {
	if seen[fn] || depth > 12 {
		return nil
	}
	seen[fn] = true
	var out []string
	name := funcKey(fn)
	if depth == 0 {
		for _, p := range fn.Params {
			switch p.Type().Underlying().(type) {
			case *types.Pointer, *types.Map, *types.Chan, *types.Signature, *types.Interface:
				out = append(out, fmt.Sprintf("%s: parameter %s has reference type %s", name, p.Name(), p.Type()))
			default:
				if containsRef(p.Type(), 0) {
					out = append(out, fmt.Sprintf("%s: parameter %s (%s) contains references", name, p.Name(), p.Type()))
				}
			}
		}
	}
	for _, b := range fn.Blocks {
		for _, in := range b.Instrs {
			switch x := in.(type) {
			case *ssa.Range:
				if _, ok := x.X.Type().Underlying().(*types.Map); ok {
					out = append(out, fmt.Sprintf("%s: iterates over a map (order is unspecified)", name))
				}
			case *ssa.Go, *ssa.Select, *ssa.Send:
				out = append(out, fmt.Sprintf("%s: concurrency construct %T", name, in))
			case *ssa.UnOp:
				if g, ok := x.X.(*ssa.Global); ok {
					if c.globalWritten(g) {
						out = append(out, fmt.Sprintf("%s: reads the mutable package variable %s", name, g.Name()))
					}
				}
			case *ssa.Store:
				if _, ok := x.Addr.(*ssa.Global); ok {
					out = append(out, fmt.Sprintf("%s: writes a package variable", name))
				}
			case *ssa.Call:
				if _, ok := x.Call.Value.(*ssa.Builtin); ok {
					continue
				}
				callee := x.Call.StaticCallee()
				if callee == nil {
					if mc, ok := x.Call.Value.(*ssa.MakeClosure); ok {
						out = append(out, c.purityProblems(mc.Fn.(*ssa.Function), seen, depth+1)...)
						continue
					}
					if !x.Call.IsInvoke() {
						// a closure value of this function: its body is scanned through AnonFuncs below
						continue
					}
					out = append(out, fmt.Sprintf("%s: dynamic call through an interface", name))
					continue
				}
				if callee.Pkg == nil || !strings.HasPrefix(callee.Pkg.Pkg.Path(), "github.com/juev/hledger-lsp") {
					pk := ""
					if callee.Pkg != nil {
						pk = callee.Pkg.Pkg.Path()
					} else if callee.Object() != nil && callee.Object().Pkg() != nil {
						pk = callee.Object().Pkg().Path()
					}
					if !pureExternal[pk] {
						out = append(out, fmt.Sprintf("%s: calls %s (package %q is not on the list of deterministic libraries)", name, callee.String(), pk))
					}
					continue
				}
				out = append(out, c.purityProblems(callee, seen, depth+1)...)
			}
		}
	}
	for _, af := range fn.AnonFuncs {
		out = append(out, c.purityProblems(af, seen, depth+1)...)
	}
	sort.Strings(out)
	return out
}

// containsRef: values of type t can hold pointers, maps, channels, functions or interfaces (their meaning depends on the heap).
func containsRef(t types.Type, depth int) bool {
	if depth > 6 {
		return true
	}
	switch u := t.Underlying().(type) {
	case *types.Pointer, *types.Map, *types.Chan, *types.Signature, *types.Interface:
		return true
	case *types.Slice:
		return containsRef(u.Elem(), depth+1)
	case *types.Array:
		return containsRef(u.Elem(), depth+1)
	case *types.Struct:
		if isDecimal(t) {
			return false
		}
		for i := 0; i < u.NumFields(); i++ {
			if containsRef(u.Field(i).Type(), depth+1) {
				return true
			}
		}
	}
	return false
}

var globalWrites map[*ssa.Global]bool

// globalWritten: some function of the repository (other than a package initialiser) stores to g.
func (c *Ctx) globalWritten(g *ssa.Global) bool {
	if globalWrites == nil {
		globalWrites = map[*ssa.Global]bool{}
		for fn := range allFunctions(c.prog) {
			if fn.Pkg == nil || !strings.HasPrefix(fn.Pkg.Pkg.Path(), "github.com/juev/hledger-lsp") || fn.Name() == "init" || strings.HasPrefix(fn.Name(), "init#") {
				continue
			}
			for _, b := range fn.Blocks {
				for _, in := range b.Instrs {
					if st, ok := in.(*ssa.Store); ok {
						if gg, ok := st.Addr.(*ssa.Global); ok {
							globalWrites[gg] = true
						}
					}
				}
			}
		}
	}
	return globalWrites[g]
}

func allFunctions(prog *ssa.Program) map[*ssa.Function]bool {
	out := map[*ssa.Function]bool{}
	var add func(f *ssa.Function)
	add = func(f *ssa.Function) {
		if f == nil || out[f] {
			return
		}
		out[f] = true
		for _, a := range f.AnonFuncs {
			add(a)
		}
	}
	for _, pkg := range prog.AllPackages() {
		for _, m := range pkg.Members {
			switch x := m.(type) {
			case *ssa.Function:
				add(x)
			case *ssa.Type:
				for _, t := range []types.Type{x.Type(), types.NewPointer(x.Type())} {
					ms := prog.MethodSets.MethodSet(t)
					for i := 0; i < ms.Len(); i++ {
						add(prog.MethodValue(ms.At(i)))
					}
				}
			}
		}
	}
	return out
}

// funcSym declares (once per query context) the spec function of a functional contract and returns its name,
// parameter types (slices as sequences) and result type.
func (c *Ctx) funcSym(fn *ssa.Function, fc *FuncContract) (string, []types.Type, types.Type) {
	var pts []types.Type
	var sorts []string
	for _, p := range fn.Params {
		t := p.Type()
		if sl, ok := t.Underlying().(*types.Slice); ok {
			t = &seqType{sl.Elem()}
		}
		pts = append(pts, t)
		sorts = append(sorts, c.sortOf(t))
	}
	rt := fn.Signature.Results().At(0).Type()
	if sl, ok := rt.Underlying().(*types.Slice); ok {
		rt = &seqType{sl.Elem()}
	}
	name := "fn_" + fc.Functional
	if !c.dts[name] {
		c.dts[name] = true
		c.dtDecls = append(c.dtDecls, fmt.Sprintf("(declare-fun %s (%s) %s)", name, strings.Join(sorts, " "), c.sortOf(rt)))
	}
	return name, pts, rt
}

// lookupFunctional finds the contract that introduces spec function `name`.
func (c *Ctx) lookupFunctional(name string) (*ssa.Function, *FuncContract) {
	for k, fc := range c.cs.Funcs {
		if fc.Functional == name {
			if fn := repoFuncs[k]; fn != nil {
				return fn, fc
			}
		}
	}
	return nil, nil
}

var repoFuncs map[string]*ssa.Function
