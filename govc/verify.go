package main

import (
	"fmt"
	"go/types"
	"sort"
	"strings"

	"golang.org/x/tools/go/ssa"
)

func newFrame(c *Ctx, fn *ssa.Function, fc *FuncContract, name string) *Frame {
	return &Frame{ctx: c, fn: fn, fc: fc, vals: map[ssa.Value]Val{}, tuples: map[ssa.Value][]Val{}, addrs: map[ssa.Value]Addr{}, top: true,
		locals: map[string][]*ssa.Alloc{}, fname: name, iters: map[ssa.Value]iterInfo{}, iterKeys: map[int]string{}, specdefs: map[string]types.Type{},
		loopOf: map[*ssa.BasicBlock][]*loopMod{}, loopHead: map[int]*State{}, writeSet: map[string][]string{}}
}

// verify generates every obligation of fn against its contract fc into c.obls.
func verify(c *Ctx, fn *ssa.Function, fc *FuncContract, commutes bool) {
	fr := newFrame(c, fn, fc, funcKey(fn))
	st := &State{pc: "true", cells: map[cellKey]string{}, heap: map[string]string{}}
	for _, p := range fn.Params {
		v := Val{c.fresh("p_"+p.Name(), c.sortOf(p.Type())), p.Type()}
		fr.vals[p] = v
		for _, f := range c.typeInv(v.T, p.Type(), 0) {
			c.defs = append(c.defs, "(assert "+f+")")
		}
		if pt, ok := p.Type().Underlying().(*types.Pointer); ok && isBuilder(pt.Elem()) {
			// a *strings.Builder parameter: the text it holds is element 0 of a one-element array at the pointer ("*sb")
			fr.addrs[p] = Addr{Elem: true, Root: pt.Elem(), Ref: v.T, Idx: "0", Sl: fmt.Sprintf("(mk-slice %s 0 1)", v.T), RelIx: "0"}
		}
		switch p.Type().Underlying().(type) {
		case *types.Pointer:
			if fc.Auto {
				c.defs = append(c.defs, fmt.Sprintf("(assert (not (= %s 0)))", v.T)) // sweep default: pointer parameters are non-nil
			}
			fr.ptrParams = append(fr.ptrParams, v.T)
			fr.refParams = append(fr.refParams, v.T)
			c.defs = append(c.defs, fmt.Sprintf("(assert (<= %s %s))", v.T, fr.allocTerm(st)))
		case *types.Map:
			fr.refParams = append(fr.refParams, v.T)
			c.defs = append(c.defs, fmt.Sprintf("(assert (<= %s %s))", v.T, fr.allocTerm(st)))
		case *types.Slice:
			c.defs = append(c.defs, fmt.Sprintf("(assert (and (>= (sl.len %s) 0) (>= (sl.off %s) 0) (<= (sl.arr %s) %s)))", v.T, v.T, v.T, fr.allocTerm(st)))
		case *types.Struct:
			// references carried inside a struct parameter were allocated before the call
			for _, rp := range c.refPaths(v.T, p.Type(), 0) {
				c.defs = append(c.defs, "(assert "+strings.ReplaceAll(rp, "$B", fr.allocTerm(st))+")")
			}
		}
	}
	ghost := map[string]Val{}
	for _, g := range fc.Ghost {
		ty := contractType(g[1])
		ghost[g[0]] = Val{c.fresh("ghost_"+g[0], c.sortOf(ty)), ty}
	}
	fr.ghost = ghost
	fr.entry = st.clone()
	fr.commute = commutes
	fr.writeAll = fc.Auto
	fr.fnModMaps, fr.fnModInner = fr.evalModMaps(fc.ModMaps, fr.entry, ghost, false)
	for _, e := range fc.ModElems {
		fr.elemWrite = append(fr.elemWrite, fr.evalExpr(e, &Env{fr: fr, st: st, old: fr.entry, binds: ghost}).T)
	}
	for _, m := range fc.Modifies {
		n, fi, ok := resolveModPath(fn, m)
		if !ok {
			panic("modifies: cannot resolve " + m)
		}
		basePath := m[:strings.LastIndex(m, ".")]
		pv := fr.evalExpr(basePath, &Env{fr: fr, st: st, old: fr.entry, binds: ghost})
		hk, ft := c.heapKey(n, fi)
		c.heapGet(fr.entry, hk, ft)
		fr.writeSet[hk] = append(fr.writeSet[hk], pv.T)
	}
	for _, sd := range fc.SpecDefs {
		rt := contractType(sd.Ret)
		fr.specdefs[sd.Name] = rt
		var sorts, decl, names []string
		binds := map[string]Val{}
		for _, pr := range sd.Params {
			ty := contractType(pr[1])
			c.n++
			bn := fmt.Sprintf("%s_sd%d", pr[0], c.n)
			binds[pr[0]] = Val{bn, ty}
			sorts = append(sorts, c.sortOf(ty))
			decl = append(decl, fmt.Sprintf("(%s %s)", bn, c.sortOf(ty)))
			names = append(names, bn)
		}
		c.decls = append(c.decls, fmt.Sprintf("(declare-fun %s (%s) %s)", sd.Name, strings.Join(sorts, " "), c.sortOf(rt)))
		body := fr.evalExpr(sd.Body, &Env{fr: fr, st: fr.entry, old: fr.entry, binds: binds})
		app := fmt.Sprintf("(%s %s)", sd.Name, strings.Join(names, " "))
		c.defs = append(c.defs, fmt.Sprintf("(assert (forall (%s) (! (= %s %s) :pattern (%s))))", strings.Join(decl, " "), app, body.T, app))
	}
	for _, rq := range fc.Requires {
		fr.assume(st, fr.evalClause(rq.Src, &Env{fr: fr, st: st, old: fr.entry, binds: ghost}))
	}
	// vacuity canary: requires must be satisfiable / false not provable at entry
	fr.oblige(st, "canary.entry_false(MUST-FAIL)", "false", fn.Pos())
	fr.namePC(st, "entry")
	fr.run(st)
	for ri, r := range fr.rets {
		binds := map[string]Val{}
		for k, v := range ghost {
			binds[k] = v
		}
		clash := false
		for _, prm := range fn.Params {
			if prm.Name() == "result" {
				clash = true
			}
		}
		if len(r.vals) == 1 && !clash {
			binds["result"] = r.vals[0]
		}
		for i, v := range r.vals {
			binds[fmt.Sprintf("result%d", i)] = v
		}
		if tu := fn.Signature.Results(); tu != nil {
			for i := 0; i < tu.Len() && i < len(r.vals); i++ {
				if nm := tu.At(i).Name(); nm != "" && nm != "_" {
					binds[nm] = r.vals[i]
				}
			}
		}
		if fc.NoEffect || fc.NoAlloc {
			fr.oblige(r.st, fmt.Sprintf("effects.noalloc@ret%d", ri+1), fmt.Sprintf("(= %s %s)", fr.allocTerm(r.st), fr.allocTerm(fr.entry)), fn.Pos())
		}
		for _, en := range fc.Ensures {
			if len(en.Props) > 0 && c.skipProp != nil && c.skipProp(en.Props) {
				continue
			}
			if en.Ghost {
				// a ghost attribute of the returned object is defined by this clause: consistent only if the object is new
				c.note("%s: ghostdef %s defines ghost attributes of the returned object (assumed at call sites; the obligation is that the object is fresh)", fr.fname, en.Label)
				fr.curProps = en.Props
				fr.oblige(r.st, fmt.Sprintf("ghostdef.%s.fresh@ret%d", en.Label, ri+1), fr.evalClause("fresh(result0)", &Env{fr: fr, st: r.st, old: fr.entry, binds: binds}), fn.Pos())
				fr.curProps = nil
				continue
			}
			phi := fr.evalClause(en.Src, &Env{fr: fr, st: r.st, old: fr.entry, binds: binds})
			fr.curProps = en.Props
			fr.oblige(r.st, fmt.Sprintf("ensures.%s@ret%d", en.Label, ri+1), phi, fn.Pos())
			fr.curProps = nil
		}
	}
	if fc.Functional != "" {
		if probs := c.purityProblems(fn, map[*ssa.Function]bool{}, 0); len(probs) > 0 {
			c.note("%s: purity scan failed: %s", fr.fname, strings.Join(probs, "; "))
			fr.oblige(st, "functional.purity_scan", "false", fn.Pos())
		} else {
			fr.oblige(st, "functional.purity_scan", "true", fn.Pos())
		}
	}
	// structural vacuity: every annotated loop must exist
	var ords []int
	for ord := range fc.LoopInv {
		ords = append(ords, ord)
	}
	sort.Ints(ords)
	for _, ord := range ords {
		if ord > fr.nLoops {
			fr.oblige(st, fmt.Sprintf("contract.missing_loop%d", ord), "false", fn.Pos())
		}
	}
}
