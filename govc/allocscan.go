package main

// Static over-approximation of the map / backing-array heaps a call may touch by allocating: the set of heap keys
// (Mdom:/Mval:<map type>, E:<element type>) for which the function (transitively: static callees inside the repository,
// function literals) contains a make / append / composite allocation / conversion. "all" when the scan meets something
// it cannot see through (dynamic calls, library functions that handle slices or maps, recursion depth). The scan reads
// the real code, also of trusted functions: a trusted contract is an unverified specification, not an unseen body.
// Used to keep heaps of unrelated types syntactically unchanged across a call (smaller and more stable queries).

import (
	"go/types"
	"strings"

	"golang.org/x/tools/go/ssa"
)

type allocSet struct {
	all  bool
	keys map[string]bool
}

func mapKeyNames(m *types.Map) (string, string) {
	tn := sanitize(types.TypeString(m, func(p *types.Package) string { return p.Name() }))
	return "Mdom:" + tn, "Mval:" + tn
}

func elemKeyName(elem types.Type) string {
	return "E:" + sanitize(types.TypeString(elem, func(p *types.Package) string { return p.Name() }))
}

func hasRefContainer(t types.Type, depth int) bool {
	if depth > 4 {
		return true
	}
	switch u := t.Underlying().(type) {
	case *types.Slice, *types.Map, *types.Interface, *types.Signature, *types.Chan:
		_ = u
		return true
	case *types.Pointer:
		return hasRefContainer(u.Elem(), depth+1)
	case *types.Struct:
		for i := 0; i < u.NumFields(); i++ {
			if hasRefContainer(u.Field(i).Type(), depth+1) {
				return true
			}
		}
	case *types.Array:
		return hasRefContainer(u.Elem(), depth+1)
	case *types.Tuple:
		for i := 0; i < u.Len(); i++ {
			if hasRefContainer(u.At(i).Type(), depth+1) {
				return true
			}
		}
	}
	return false
}

func (c *Ctx) allocKeysOf(fn *ssa.Function) *allocSet {
	if c.allocCache == nil {
		c.allocCache = map[*ssa.Function]*allocSet{}
	}
	if s, ok := c.allocCache[fn]; ok {
		return s
	}
	res := &allocSet{keys: map[string]bool{}}
	seen := map[*ssa.Function]bool{}
	var scan func(f *ssa.Function, depth int)
	addMap := func(t types.Type) {
		if mt, ok := t.Underlying().(*types.Map); ok {
			kd, kv := mapKeyNames(mt)
			res.keys[kd], res.keys[kv] = true, true
		}
	}
	addElem := func(t types.Type) { res.keys[elemKeyName(t)] = true }
	scan = func(f *ssa.Function, depth int) {
		if f == nil || seen[f] || res.all {
			return
		}
		if f.Blocks == nil || depth > 8 {
			res.all = true
			return
		}
		seen[f] = true
		for _, b := range f.Blocks {
			for _, in := range b.Instrs {
				switch x := in.(type) {
				case *ssa.MakeMap:
					addMap(x.Type())
				case *ssa.MakeSlice:
					addElem(x.Type().Underlying().(*types.Slice).Elem())
				case *ssa.Alloc:
					if at, ok := x.Type().(*types.Pointer).Elem().Underlying().(*types.Array); ok {
						addElem(at.Elem())
					}
				case *ssa.Convert:
					if sl, ok := x.Type().Underlying().(*types.Slice); ok {
						addElem(sl.Elem())
					}
				case *ssa.MakeClosure:
					scan(x.Fn.(*ssa.Function), depth)
				case *ssa.Go, *ssa.Defer:
					cc := x.(ssa.CallInstruction).Common()
					if callee := cc.StaticCallee(); callee != nil && callee.Pkg != nil && strings.HasPrefix(callee.Pkg.Pkg.Path(), "github.com/juev/hledger-lsp") {
						scan(callee, depth+1)
					} else if callee == nil || hasRefContainer(callee.Signature.Params(), 0) || hasRefContainer(callee.Signature.Results(), 0) {
						if callee == nil || !strings.HasPrefix(callee.String(), "(*sync.") {
							res.all = true
						}
					}
				case *ssa.Call:
					if bi, ok := x.Call.Value.(*ssa.Builtin); ok {
						if bi.Name() == "append" {
							addElem(x.Call.Args[0].Type().Underlying().(*types.Slice).Elem())
						}
						continue
					}
					callee := x.Call.StaticCallee()
					if callee == nil {
						if mc, ok := x.Call.Value.(*ssa.MakeClosure); ok {
							scan(mc.Fn.(*ssa.Function), depth)
							continue
						}
						// a call of a local function value: one of the literals of this function, already scanned via MakeClosure
						if _, isLocal := x.Call.Value.(*ssa.UnOp); isLocal && !x.Call.IsInvoke() && len(f.AnonFuncs) > 0 {
							for _, af := range f.AnonFuncs {
								scan(af, depth)
							}
							continue
						}
						res.all = true
						continue
					}
					if callee.Pkg != nil && strings.HasPrefix(callee.Pkg.Pkg.Path(), "github.com/juev/hledger-lsp") {
						scan(callee, depth+1)
						continue
					}
					full := callee.String()
					switch {
					case full == "strings.Split" || full == "strings.Fields" || full == "strings.SplitN":
						addElem(types.Typ[types.String])
					case strings.HasPrefix(full, "maps.Copy["), strings.HasPrefix(full, "(*sync."), strings.HasPrefix(full, "sort."), strings.HasPrefix(full, "slices.Sort"):
						// no allocation visible to the model
					case hasRefContainer(callee.Signature.Results(), 0):
						res.all = true
					default:
						// library function that returns only scalars / strings: allocates nothing the model tracks
						// (variadic ...any arguments are allocated by the caller and were counted there)
					}
				}
			}
		}
	}
	scan(fn, 0)
	c.allocCache[fn] = res
	return res
}
