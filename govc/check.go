package main

import (
	"encoding/json"
	"fmt"
	"math/rand"
	"os"
	"path/filepath"
	"runtime"
	"runtime/debug"
	"sort"
	"strconv"
	"strings"
	"time"
)

type checkOpts struct {
	property    string
	tier        string
	repo        string
	verif       string
	only        string
	overlay     string
	verbose     bool
	noReplay    bool
	sweepUpdate bool
}

type Finding struct {
	Property   string `json:"property"`
	Obligation string `json:"obligation"` // pkg.Func#kind.label
	Status     string `json:"status"`     // open | fixed
	What       string `json:"what"`
	Input      string `json:"input"`
	Witness    string `json:"witness,omitempty"`     // Go test file under /verif/findings, injected with -overlay
	WitnessPkg string `json:"witness_pkg,omitempty"` // package directory relative to the repository
	WitnessRun string `json:"witness_run,omitempty"` // test name
	Commit     string `json:"commit,omitempty"`      // for fixed entries
	Case       string `json:"bounded_case,omitempty"` // for a finding of a bounded stand-in: text that identifies the failing case (a different case is a new violation)
}

type KnownFindings struct {
	Findings []Finding `json:"findings"`
}

func loadFindings(verif string) (*KnownFindings, error) {
	kf := &KnownFindings{}
	data, err := os.ReadFile(filepath.Join(verif, "known_findings.json"))
	if err != nil {
		if os.IsNotExist(err) {
			return kf, nil
		}
		return nil, err
	}
	if err := json.Unmarshal(data, kf); err != nil {
		return nil, fmt.Errorf("known_findings.json: %v", err)
	}
	return kf, nil
}

// unit: one function under contract (or one lemma) selected for a property.
type unit struct {
	key   string
	lemma *Lemma
}

type clauseAgg struct {
	clause   string
	fn       string
	props    []string
	n, ok    int
	verdicts map[string]int
	worst    *Result
	pos      string
	secs     float64
}

func runCheck(opt *checkOpts) int {
	t0 := time.Now()
	seed, _ := strconv.Atoi(os.Getenv("VERIF_SEED"))
	if opt.property == "" {
		fmt.Fprintln(os.Stderr, "check: -property required")
		return 2
	}
	thorough := opt.tier == "thorough"
	repo, err := loadRepo(opt.repo, parseOverlay(opt.overlay))
	if err != nil {
		fmt.Fprintf(os.Stderr, "govc: cannot load %s: %v\n", opt.repo, err)
		return 2
	}
	kf, err := loadFindings(opt.verif)
	if err != nil {
		fmt.Fprintln(os.Stderr, err)
		return 2
	}
	refuted := map[string]bool{}
	for _, f := range kf.Findings {
		if f.Status == "open" && (strings.Contains(f.Obligation, "#ensures.") || strings.Contains(f.Obligation, ".lemma.")) {
			refuted[f.Obligation] = true
		}
	}
	loadSecs := time.Since(t0).Seconds()
	if opt.only == "" {
		os.RemoveAll(filepath.Join(opt.verif, "replays", opt.property)) // replay files belong to one run
	}

	// ---- selection ----
	var units []unit
	pkgsUsed := map[string]bool{}
	var fkeys []string
	for k := range repo.cs.Funcs {
		fkeys = append(fkeys, k)
	}
	sort.Strings(fkeys)
	var structural []Result // contract-level failures that need no solver
	var forwards []string
	for _, k := range fkeys {
		fc := repo.cs.Funcs[k]
		if fc.Pure || fc.Trusted || !fc.hasProp(opt.property) {
			continue
		}
		if opt.only != "" && strings.TrimSuffix(k, "!body") != opt.only && !strings.HasSuffix(strings.TrimSuffix(k, "!body"), "."+opt.only) {
			continue
		}
		if _, ok := repo.funcs[strings.TrimSuffix(k, "!body")]; !ok {
			structural = append(structural, Result{Obl: Obligation{Name: k + "#contract.missing_function", Clause: k + "#contract.missing_function", Func: k, Pos: fmt.Sprintf("%s:%d", fc.File, fc.Line)}, Verdict: "error",
				Attempts: []Attempt{{Solver: "govc", Verdict: "error", Out: "the function named by this contract no longer exists in the repository"}}})
			continue
		}
		if fc.RangeSorted != "" {
			name := k + "#syncmap_range_sorted[" + fc.RangeSorted + "]"
			why := checkRangeSorted(repo.funcs[k], fc.RangeSorted)
			r := Result{Obl: Obligation{Name: name, Clause: name, Func: k, Pos: fmt.Sprintf("%s:%d", fc.File, fc.Line)}, Verdict: "unsat", Solver: "structural"}
			if why != "" {
				r.Verdict = "error"
				r.Attempts = []Attempt{{Solver: "govc", Verdict: "error", Out: "iteration order of the sync.Map can reach the answer: " + why}}
			}
			structural = append(structural, r)
			forwards = append(forwards, k+" sorts "+fc.RangeSorted)
			continue
		}
		if fc.Forward != "" {
			name := k + "#forward[" + fc.Forward + "]"
			why := checkForward(repo.funcs[k], fc.Forward)
			r := Result{Obl: Obligation{Name: name, Clause: name, Func: k, Pos: fmt.Sprintf("%s:%d", fc.File, fc.Line)}, Verdict: "unsat", Solver: "structural"}
			if why != "" {
				r.Verdict = "error"
				r.Attempts = []Attempt{{Solver: "govc", Verdict: "error", Out: "the body is not a plain hand-over to " + fc.Forward + ": " + why}}
			}
			structural = append(structural, r)
			forwards = append(forwards, k+" -> "+fc.Forward)
			continue
		}
		units = append(units, unit{key: k})
		pkgsUsed[fc.Pkg] = true
	}
	for i := range repo.cs.Lemmas {
		lm := &repo.cs.Lemmas[i]
		own := len(lm.Props) == 0
		for _, p := range lm.Props {
			if p == opt.property {
				own = true
			}
		}
		if pkgsUsed[lm.Pkg] && own && (opt.only == "" || opt.only == "lemmas") {
			units = append(units, unit{key: lm.Pkg + ".lemma." + lm.Name, lemma: lm})
		}
	}

	// ---- generation + solving (streamed) ----
	outDir, err := os.MkdirTemp("", "govc-"+opt.property+"-")
	if err != nil {
		fmt.Fprintln(os.Stderr, err)
		return 2
	}
	defer os.RemoveAll(outDir)
	timeout := 10 * time.Second
	if thorough {
		timeout = 30 * time.Second
	}
	workers := runtime.NumCPU()
	if thorough {
		workers = (workers + 1) / 2
	}
	rng := rand.New(rand.NewSource(int64(seed) + 1))
	sampleEvery := 12 // about one obligation in twelve is cross-checked with cvc5 in the thorough tier
	pl := newPool(outDir, workers, thorough, timeout)
	openKnown := map[string]bool{}
	for _, f := range kf.Findings {
		if f.Status == "open" && (f.Property == opt.property || f.Property == "*") {
			openKnown[f.Obligation] = true
		}
	}
	pl.retry = func(o Obligation) bool { return !openKnown[o.Clause] } // a listed open finding is expected not to discharge
	notes := map[string]bool{}
	var funcsUnder []string
	nLemmas := 0
	maxQuery := 0
	skip := func(props []string) bool {
		for _, p := range props {
			if p == opt.property {
				return false
			}
		}
		return true
	}
	for _, u := range units {
		var c *Ctx
		var genErr any
		func() {
			defer func() {
				if r := recover(); r != nil {
					genErr = r
					if os.Getenv("GOVC_STACK") != "" {
						fmt.Fprintf(os.Stderr, "generator panic: %v\n%s\n", r, debug.Stack())
					}
				}
			}()
			if u.lemma != nil {
				c = repo.newCtx(u.lemma.Pkg)
				c.refuted = refuted
				fr := newFrame(c, nil, nil, u.key)
				fr.top = false
				for _, prev := range repo.cs.Lemmas {
					if prev.Name == u.lemma.Name && prev.Pkg == u.lemma.Pkg {
						break
					}
					if prev.Pkg == u.lemma.Pkg && !refuted[prev.Pkg+".lemma."+prev.Name+"#proof"] {
						c.defs = append(c.defs, "(assert "+fr.lemmaAxiom(prev)+")")
					}
				}
				as, goal := fr.lemmaObligation(*u.lemma)
				st := &State{pc: "true", cells: map[cellKey]string{}, heap: map[string]string{}}
				for _, a := range as {
					fr.assume(st, a)
				}
				fr.oblige(st, "proof", goal, 0)
				nLemmas++
				return
			}
			fc := repo.cs.Funcs[u.key]
			c = repo.newCtx(fc.Pkg)
			c.refuted = refuted
			c.skipProp = skip
			c.property = opt.property
			lf := newFrame(c, nil, nil, "lemmas")
			for _, lm := range repo.cs.Lemmas {
				if lm.Pkg == fc.Pkg && !refuted[lm.Pkg+".lemma."+lm.Name+"#proof"] {
					c.defs = append(c.defs, "(assert "+lf.lemmaAxiom(lm)+")")
				}
			}
			verify(c, repo.funcs[strings.TrimSuffix(u.key, "!body")], fc, opt.property == "C15")
			funcsUnder = append(funcsUnder, u.key)
		}()
		if genErr != nil {
			structural = append(structural, Result{Obl: Obligation{Name: u.key + "#generator", Clause: u.key + "#generator", Func: u.key}, Verdict: "error",
				Attempts: []Attempt{{Solver: "govc", Verdict: "error", Out: fmt.Sprintf("the VC generator could not process this function: %v", genErr)}}})
			continue
		}
		for _, n := range c.notes {
			if i := strings.Index(n, ": "); i > 0 {
				notes[n[i+2:]] = true
			}
		}
		for _, o := range c.obls {
			if len(o.Query) > maxQuery {
				maxQuery = len(o.Query)
			}
			if len(o.Query) > 2<<20 {
				structural = append(structural, Result{Obl: Obligation{Name: o.Name, Clause: o.Clause, Func: o.Func, Pos: o.Pos}, Verdict: "error",
					Attempts: []Attempt{{Solver: "govc", Verdict: "error", Out: fmt.Sprintf("query of %d bytes exceeds the 2 MiB cap", len(o.Query))}}})
				continue
			}
			if d := os.Getenv("GOVC_DUMP"); d != "" {
				os.MkdirAll(d, 0o755)
				os.WriteFile(filepath.Join(d, fileBase(o.Name)+".smt2"), []byte(o.Query), 0o644)
			}
			if thorough && !o.MustFail && rng.Intn(sampleEvery) == 0 {
				o.Sample = true
			}
			pl.in <- o
		}
		c.obls = nil
	}
	results := append(pl.wait(), structural...)
	sort.Slice(results, func(i, j int) bool { return results[i].Obl.Name < results[j].Obl.Name })

	// ---- classification ----
	aggs := map[string]*clauseAgg{}
	var order []string
	nObl, nDis, nCanary := 0, 0, 0
	solverSecs := 0.0
	bySolver := map[string]int{}
	slowest := 0.0
	slowName := ""
	var samples []map[string]any
	for i := range results {
		r := &results[i]
		solverSecs += r.Secs
		if r.Secs > slowest {
			slowest, slowName = r.Secs, r.Obl.Name
		}
		if r.Obl.MustFail {
			nCanary++
			if r.Verdict == "unsat" { // the canary was proved: the precondition is contradictory
				r.Verdict = "vacuous"
			} else {
				continue
			}
		}
		a := aggs[r.Obl.Clause]
		if a == nil {
			a = &clauseAgg{clause: r.Obl.Clause, fn: r.Obl.Func, props: r.Obl.Props, verdicts: map[string]int{}, pos: r.Obl.Pos}
			aggs[r.Obl.Clause] = a
			order = append(order, r.Obl.Clause)
		}
		a.n++
		a.secs += r.Secs
		a.verdicts[r.Verdict]++
		nObl++
		if r.Verdict == "unsat" {
			a.ok++
			nDis++
			bySolver[r.Solver]++
			if len(samples) < 6 && (strings.Contains(r.Obl.Name, "#ensures.") || strings.Contains(r.Obl.Name, ".inv")) {
				samples = append(samples, map[string]any{"obligation": r.Obl.Name, "verdict": "unsat", "solver": r.Solver, "solver_s": round3(r.Secs), "at": r.Obl.Pos})
			}
		} else if a.worst == nil {
			a.worst = r
		}
	}
	sort.Strings(order)

	// ---- failed clauses: known findings vs violations ----
	violations := 0
	var knownHit, stale []string
	var violLines []string
	nKnownObl := 0
	failedSet := map[string]bool{}
	for _, cl := range order {
		a := aggs[cl]
		if a.ok == a.n {
			continue
		}
		failedSet[cl] = true
		var kfHit *Finding
		for i := range kf.Findings {
			f := &kf.Findings[i]
			if f.Status == "open" && f.Obligation == cl && (f.Property == opt.property || f.Property == "*") {
				kfHit = f
			}
		}
		if kfHit != nil {
			ok, wout := true, ""
			if kfHit.Witness != "" && !opt.noReplay {
				ok, wout = runWitness(opt, kfHit)
			}
			if ok {
				fmt.Printf("KNOWN-FINDING: property=%s %s: %s [input: %s]\n", opt.property, cl, kfHit.What, kfHit.Input)
				knownHit = append(knownHit, cl)
				nKnownObl += a.n - a.ok
				nObl -= a.n - a.ok // refuted obligations that are listed findings are not part of the proof claim
				continue
			}
			a.worst.Attempts = append(a.worst.Attempts, Attempt{Solver: "witness", Verdict: "holds", Out: "the recorded failing input no longer fails, but the obligation is still not provable: a different violation\n" + wout})
		}
		violations++
		if !opt.noReplay && a.worst != nil {
			// replay on the real code: small-scope search driven by the function's own contract (replay.go)
			tr := time.Now()
			res := smallScopeReplay(repo, opt.repo, a.fn)
			a.worst.Attempts = append(a.worst.Attempts, Attempt{Solver: "replay", Verdict: res.Verdict, Secs: round3(time.Since(tr).Seconds()), Out: res.Detail})
			if res.Verdict == "confirmed" && !replayPrinted[a.fn] {
				replayPrinted[a.fn] = true
				fmt.Printf("REPLAY: %s\n", res.Detail)
			}
		}
		path := writeReplay(opt, a, outDir)
		suffix := ""
		if !a.confirmed() {
			suffix = " no-failing-input-found"
		}
		violLines = append(violLines, fmt.Sprintf("VIOLATION property=%s replay=%s%s", opt.property, path, suffix))
	}
	for _, f := range kf.Findings {
		if f.Status == "open" && f.Property == opt.property && !failedSet[f.Obligation] {
			if _, generated := aggs[f.Obligation]; generated {
				stale = append(stale, f.Obligation)
			}
		}
	}
	// ---- witnesses of repaired defects that no obligation covers ("#witness" entries, status fixed): the recorded input
	// is replayed on the real code on every run, so that the defect is reported again if it ever returns (a test, not a
	// proof: listed as such in the evidence) ----
	regressionEv := []map[string]any{}
	var witnessFailed []string
	if opt.only == "" && !opt.noReplay {
		for i := range kf.Findings {
			f := &kf.Findings[i]
			if f.Status != "fixed" || f.Property != opt.property || !strings.HasSuffix(f.Obligation, "#witness") || f.Witness == "" {
				continue
			}
			tw := time.Now()
			fails, wout := runWitness(opt, f)
			rec := map[string]any{"obligation": f.Obligation, "witness": f.WitnessRun, "repaired_in": f.Commit, "wall_s": round3(time.Since(tw).Seconds())}
			if fails {
				rec["result"] = "the repaired defect is back"
				witnessFailed = append(witnessFailed, "witness."+f.WitnessRun)
				violations++
				path := writeNote(opt, "witness_"+sanitize(f.WitnessRun), "the witness of a repaired defect fails again ("+f.Obligation+", repaired in "+f.Commit+"): "+f.What+"\n"+wout)
				violLines = append(violLines, fmt.Sprintf("VIOLATION property=%s replay=%s", opt.property, path))
			} else if strings.HasPrefix(wout, "witness did not run") {
				rec["result"] = "did not run"
				violations++
				path := writeNote(opt, "witness_"+sanitize(f.WitnessRun), "the witness of a repaired defect ("+f.Obligation+") did not run:\n"+wout)
				violLines = append(violLines, fmt.Sprintf("VIOLATION property=%s replay=%s no-failing-input-found", opt.property, path))
			} else {
				rec["result"] = "holds"
			}
			regressionEv = append(regressionEv, rec)
		}
	}
	// ---- bounded stand-ins (functions outside the verifier's reach; labelled bounded, never counted as proved) ----
	boundedEv := []map[string]any{}
	var boundedFailed []string
	if opt.only == "" && !opt.noReplay {
		for _, b := range loadBounded(opt.verif) {
			if b.Property != opt.property {
				continue
			}
			tb := time.Now()
			out, _ := runOverlayTest(opt.repo, b.Pkg, filepath.Join(opt.verif, b.File), b.Run, 120*time.Second)
			okLine, failLine := "", ""
			for _, l := range strings.Split(out, "\n") {
				l = strings.TrimSpace(l)
				if strings.HasPrefix(l, "BOUNDED-OK") {
					okLine = l
				}
				if strings.HasPrefix(l, "BOUNDED-FAIL") && failLine == "" {
					failLine = l
				}
			}
			rec := map[string]any{"name": b.Name, "function": b.Function, "bound": b.Bound, "covers": b.Covers, "wall_s": round3(time.Since(tb).Seconds())}
			switch {
			case failLine != "" && knownBoundedCase(kf, opt.property, b.Name, failLine) != nil:
				f := knownBoundedCase(kf, opt.property, b.Name, failLine)
				rec["result"] = "violated (listed known finding)"
				rec["failing_case"] = failLine
				fmt.Printf("KNOWN-FINDING: property=%s bounded.%s: %s [input: %s]\n", opt.property, b.Name, f.What, f.Input)
				knownHit = append(knownHit, "bounded."+b.Name)
			case failLine != "":
				rec["result"] = "violated"
				rec["failing_case"] = failLine
				boundedFailed = append(boundedFailed, "bounded."+b.Name)
				violations++
				path := writeNote(opt, "bounded_"+b.Name, "bounded stand-in "+b.Name+" ("+b.Bound+") found a failing case on the real code: "+failLine+"\nre-run: go test -overlay (see tools) "+b.Run)
				violLines = append(violLines, fmt.Sprintf("VIOLATION property=%s replay=%s", opt.property, path))
			case okLine != "":
				rec["result"] = "held on every case"
				rec["summary"] = okLine
			default:
				rec["result"] = "did not run"
				boundedFailed = append(boundedFailed, "bounded."+b.Name+"(did-not-run)")
				tail := out
				if len(tail) > 800 {
					tail = tail[len(tail)-800:]
				}
				violations++
				path := writeNote(opt, "bounded_"+b.Name, "bounded stand-in "+b.Name+" did not run (build error after a change of the code under test?):\n"+tail)
				violLines = append(violLines, fmt.Sprintf("VIOLATION property=%s replay=%s no-failing-input-found", opt.property, path))
			}
			boundedEv = append(boundedEv, rec)
		}
	}
	// ---- zero-annotation safety sweep (C06 only; regression check against a committed baseline) ----
	var sweepEv map[string]any
	if opt.property == "C06" && opt.only == "" {
		sw := runSweep(repo, opt, opt.sweepUpdate)
		violLines = append(violLines, sw.violLines...)
		violations += sw.violations
		sweepEv = sw.evidence
		fmt.Printf("govc: sweep functions=%v clauses=%v discharged=%v baseline=%v rechecked=%v regressions=%d wall=%vs\n", sw.evidence["functions_swept"], sw.evidence["safety_clauses_generated"], sw.evidence["safety_clauses_discharged"], sw.evidence["baseline_clauses"], sw.evidence["baseline_clauses_rechecked"], sw.violations, sw.evidence["wall_s"])
	}
	for _, l := range violLines {
		fmt.Println(l)
	}
	// vacuity: a property with no obligations proves nothing
	if nObl == 0 && opt.only == "" {
		fmt.Printf("VIOLATION property=%s replay=%s no-failing-input-found\n", opt.property, writeNote(opt, "no-obligations", "the check generated no obligation for this property: contracts missing or not loaded"))
		violations++
	}

	wall := time.Since(t0).Seconds()
	fmt.Printf("govc: property=%s tier=%s functions=%d lemmas=%d obligations=%d discharged=%d known=%d violations=%d canaries=%d solver_s=%.1f slowest=%.2fs(%s) maxquery=%dkB load=%.1fs wall=%.1fs\n",
		opt.property, opt.tier, len(funcsUnder), nLemmas, nObl, nDis, len(knownHit), violations, nCanary, solverSecs, slowest, slowName, maxQuery/1024, loadSecs, wall)
	if opt.verbose {
		for _, cl := range order {
			a := aggs[cl]
			if a.ok != a.n {
				fmt.Printf("  FAILED %s (%d/%d) %v at %s\n", cl, a.ok, a.n, a.verdicts, a.pos)
			}
		}
		for _, b := range append(witnessFailed, boundedFailed...) {
			fmt.Printf("  FAILED %s (bounded stand-in found a failing case)\n", b)
		}
		for _, s := range stale {
			fmt.Printf("  STALE-FINDING %s is listed open but discharged\n", s)
		}
	}
	if opt.only != "" {
		if violations > 0 {
			return 1
		}
		return 0
	}

	// ---- evidence ----
	var assumptions []string
	for n := range notes {
		assumptions = append(assumptions, "abstracted in the functions of this property: "+n)
	}
	sort.Strings(assumptions)
	assumptions = append(modellingAssumptions(), assumptions...)
	for _, a := range repo.cs.scanAssumptions() {
		assumptions = append(assumptions, a)
	}
	und := undecidedClauses[opt.property]
	if data, err := os.ReadFile(filepath.Join(opt.verif, "undecided.json")); err == nil {
		m := map[string][]string{}
		if json.Unmarshal(data, &m) == nil {
			und = m[opt.property]
		}
	}
	// preconditions of functions under contract that no verified caller establishes (entry points): assumptions on the environment
	var entryPre []string
	called := map[string]bool{}
	for _, r := range results {
		if i := strings.Index(r.Obl.Clause, "#call["); i > 0 {
			rest := r.Obl.Clause[i+len("#call["):]
			if j := strings.Index(rest, "]"); j > 0 {
				called[rest[:j]] = true
			}
		}
	}
	for _, k := range funcsUnder {
		if fc := repo.cs.Funcs[k]; fc != nil && !called[k] {
			for _, rq := range fc.Requires {
				entryPre = append(entryPre, k+" requires "+rq.Src)
			}
		}
	}
	clauseList := []string{}
	for _, cl := range order {
		if aggs[cl].ok == aggs[cl].n && strings.Contains(cl, "#ensures.") {
			clauseList = append(clauseList, cl)
		}
	}
	if len(samples) == 0 {
		for i := range results {
			if results[i].Verdict == "unsat" && len(samples) < 4 {
				samples = append(samples, map[string]any{"obligation": results[i].Obl.Name, "verdict": "unsat", "solver": results[i].Solver})
			}
		}
	}
	checker := "govc check -property " + opt.property + " -tier " + opt.tier + ": go/ssa (NaiveForm) -> weakest-precondition style VCs, one SMT-LIB query per obligation; z3 5.1.0 (smt.auto_config=false smt.mbqi=false), then z3 4.8.12 and cvc5 1.0.3 on whatever is not unsat"
	if thorough {
		checker = "govc check -property " + opt.property + " -tier thorough: every obligation sent to z3 5.1.0 and z3 4.8.12 (30 s each), a seeded sample of about 1 in 12 also to cvc5 1.0.3 (15 s); an obligation counts as discharged when one answers unsat and none answers sat; the must-fail corpus of this property is run afterwards"
	}
	ev := map[string]any{
		"property_id": opt.property, "tier": opt.tier, "seed": seed, "level": "proof", "wall_s": round3(wall), "violations": violations,
		"coverage": map[string]any{
			"obligations": nObl, "discharged": nDis, "checker_cmd": checker,
			"trusted_base": []string{"golang.org/x/tools v0.50.0 go/packages + go/ssa (translation of /repo's source)", "govc VC generator (instruction semantics, loop cut points, state merging, SMT encoding)",
				"z3 5.1.0, z3 4.8.12, cvc5 1.0.3", "SMT prelude axioms (strings, UTF-8/UTF-16, line geometry)", "assumed library contracts (strings, utf8, decimal, maps, sort) as listed under assumptions"},
			"samples":                               samples,
			"functions_under_contract":              funcsUnder,
			"lemmas":                                nLemmas,
			"proved_postconditions":                 clauseList,
			"discharged_by_solver":                  bySolver,
			"solver_s":                              round3(solverSecs),
			"slowest_obligation_s":                  round3(slowest),
			"vacuity_canaries":                      nCanary,
			"known_findings":                        knownHit,
			"known_finding_obligations_excluded":    nKnownObl,
			"stale_findings":                        stale,
			"undecided_clauses_of_the_property":     und,
			"bounded_standins":                      boundedEv,
			"safety_sweep":                          sweepEv,
			"regression_witnesses_of_repaired_defects": regressionEv,
			"preconditions_assumed_at_entry_points": entryPre,
			"max_query_kB":                          maxQuery / 1024,
			"explanation":                           "obligations = SMT queries generated from /repo's current source for the functions and lemmas listed (safety, frame, loop invariant entry/preservation, variants, call preconditions, postconditions); discharged = answered unsat. Refuted obligations that are listed known findings are reported separately and are not counted.",
		},
		"assumptions": assumptions,
	}
	os.MkdirAll(filepath.Join(opt.verif, "evidence"), 0o755)
	data, _ := json.MarshalIndent(ev, "", " ")
	if err := os.WriteFile(filepath.Join(opt.verif, "evidence", opt.property+".json"), append(data, '\n'), 0o644); err != nil {
		fmt.Fprintln(os.Stderr, err)
		return 2
	}
	if violations > 0 {
		return 1
	}
	return 0
}

type Bounded struct {
	Property string `json:"property"`
	Name     string `json:"name"`
	Function string `json:"function"`
	Pkg      string `json:"pkg"`
	File     string `json:"file"`
	Run      string `json:"run"`
	Bound    string `json:"bound"`
	Covers   string `json:"covers"`
}

func loadBounded(verif string) []Bounded {
	var bs []Bounded
	if data, err := os.ReadFile(filepath.Join(verif, "bounded.json")); err == nil {
		json.Unmarshal(data, &bs)
	}
	return bs
}

var replayPrinted = map[string]bool{}

func round3(f float64) float64 { return float64(int(f*1000+0.5)) / 1000 }

func (a *clauseAgg) confirmed() bool {
	if a.worst == nil {
		return false
	}
	for _, at := range a.worst.Attempts {
		if at.Solver == "replay" && at.Verdict == "confirmed" {
			return true
		}
	}
	return false
}

func modellingAssumptions() []string {
	return []string{
		"int/int64 are mathematical integers (no overflow obligations); uint8/16/32 arithmetic wraps and narrowing conversions raise obligations",
		"len of every string and slice < 2^62",
		"strings are an uninterpreted sort with len/at/substr/concat axioms; UTF-8 decoding is defined from the bytes",
		"append always allocates a fresh backing array (in-place append aliasing is not modelled)",
		"goroutines, channels, select, panic/recover, reflection are not modelled: every proof is about one sequential call on a quiescent state; mutex operations are no-ops",
		"map iteration visits an arbitrary not-yet-visited key each step; termination of range over maps/strings is taken from the language",
		"package-level variables that are only read are constants of the model",
		"fmt formatting, floats, file system, time are opaque values",
	}
}

// undecidedClauses: clauses of each property statement that no obligation of this framework decides (named in evidence on every run).
var undecidedClauses = map[string][]string{}

func writeReplay(opt *checkOpts, a *clauseAgg, outDir string) string {
	dir := filepath.Join(opt.verif, "replays", opt.property)
	os.MkdirAll(dir, 0o755)
	path := filepath.Join(dir, fileBase(a.clause)+".json")
	rec := map[string]any{
		"property": opt.property, "obligation": a.clause, "function": a.fn, "source": a.pos,
		"instances": a.n, "instances_discharged": a.ok, "verdicts": a.verdicts,
	}
	if a.worst != nil {
		rec["failed_instance"] = a.worst.Obl.Name
		rec["solver_attempts"] = a.worst.Attempts
		// keep the failed query next to the replay file
		for _, at := range a.worst.Attempts {
			src := filepath.Join(outDir, fileBase(a.worst.Obl.Name)+"."+at.Solver+".smt2")
			if data, err := os.ReadFile(src); err == nil {
				q := filepath.Join(dir, fileBase(a.clause)+".smt2")
				os.WriteFile(q, data, 0o644)
				rec["query"] = q
				break
			}
		}
	}
	rec["replay_cmd"] = fmt.Sprintf("%s/bin/govc check -property %s -only '%s' -v", opt.verif, opt.property, a.fn)
	rec["note"] = "the obligation is generated from /repo's current source; it was discharged on the pinned tree and is not discharged now"
	data, _ := json.MarshalIndent(rec, "", " ")
	os.WriteFile(path, append(data, '\n'), 0o644)
	return path
}

func writeNote(opt *checkOpts, name, text string) string {
	dir := filepath.Join(opt.verif, "replays", opt.property)
	os.MkdirAll(dir, 0o755)
	path := filepath.Join(dir, name+".json")
	data, _ := json.MarshalIndent(map[string]any{"property": opt.property, "obligation": name, "note": text}, "", " ")
	os.WriteFile(path, append(data, '\n'), 0o644)
	return path
}

func runReplayFile(path string) int {
	data, err := os.ReadFile(path)
	if err != nil {
		fmt.Fprintln(os.Stderr, err)
		return 2
	}
	var rec map[string]any
	if err := json.Unmarshal(data, &rec); err != nil {
		fmt.Fprintln(os.Stderr, err)
		return 2
	}
	prop, _ := rec["property"].(string)
	fn, _ := rec["function"].(string)
	if prop == "" || fn == "" {
		fmt.Println(string(data))
		return 0
	}
	verif := filepath.Dir(filepath.Dir(filepath.Dir(path)))
	return runCheck(&checkOpts{property: prop, tier: "quick", repo: "/repo", verif: verif, only: fn, verbose: true})
}

// knownBoundedCase: the open finding that lists exactly this failing case of a bounded stand-in (identified by a text the
// failing-case line must contain), or nil.
func knownBoundedCase(kf *KnownFindings, prop, name, failLine string) *Finding {
	for i := range kf.Findings {
		f := &kf.Findings[i]
		if f.Status == "open" && f.Property == prop && f.Obligation == "bounded."+name && f.Case != "" && strings.Contains(failLine, f.Case) {
			return f
		}
	}
	return nil
}
