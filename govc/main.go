package main

// govc — verification-condition generator for the contracts on juev/hledger-lsp (DESIGN.md section 3).
//
//	govc check -property C06 [-tier quick|thorough] [-repo /repo] [-verif /verif]
//	govc replay <replay.json>
//	govc list
//	govc sweep-baseline

import (
	"flag"
	"fmt"
	"go/ast"
	"go/types"
	"os"
	"path/filepath"
	"sort"
	"strings"

	"golang.org/x/tools/go/packages"
	"golang.org/x/tools/go/ssa"
	"golang.org/x/tools/go/ssa/ssautil"
)

type Repo struct {
	dir   string
	prog  *ssa.Program
	pkgs  map[string]*ssa.Package // by package name
	cs    *Contracts
	funcs map[string]*ssa.Function // by funcKey
}

func loadRepo(dir string, overlay map[string][]byte) (*Repo, error) {
	cfg := &packages.Config{Mode: packages.LoadAllSyntax, Dir: dir, BuildFlags: []string{"-tags=verif"}, Overlay: overlay,
		Env: append(os.Environ(), "GOTOOLCHAIN=auto", "GOFLAGS=-mod=mod", "GOPROXY=off")}
	pkgs, err := packages.Load(cfg, "./internal/...", "./cmd/...")
	if err != nil {
		return nil, err
	}
	if packages.PrintErrors(pkgs) > 0 {
		return nil, fmt.Errorf("the repository does not type-check")
	}
	prog, spkgs := ssautil.AllPackages(pkgs, ssa.NaiveForm)
	prog.Build()
	r := &Repo{dir: dir, prog: prog, pkgs: map[string]*ssa.Package{}, funcs: map[string]*ssa.Function{}}
	packages.Visit(pkgs, nil, func(p *packages.Package) {
		if !strings.HasPrefix(p.PkgPath, "github.com/juev/hledger-lsp") {
			return
		}
		for i, f := range p.Syntax {
			if i < len(p.CompiledGoFiles) {
				astFiles[p.CompiledGoFiles[i]] = f
			}
		}
		for _, f := range p.Syntax {
			astFiles[prog.Fset.File(f.Pos()).Name()] = f
		}
	})
	for _, sp := range spkgs {
		if sp == nil || !(strings.HasPrefix(sp.Pkg.Path(), "github.com/juev/hledger-lsp/internal/") || strings.HasPrefix(sp.Pkg.Path(), "github.com/juev/hledger-lsp/cmd/")) {
			continue
		}
		r.pkgs[sp.Pkg.Name()] = sp
		pkgTypes[sp.Pkg.Name()] = sp.Pkg
		for _, m := range sp.Members {
			switch x := m.(type) {
			case *ssa.Function:
				if x.Synthetic == "" {
					r.funcs[funcKey(x)] = x
				}
			case *ssa.Type:
				for _, t := range []types.Type{x.Type(), types.NewPointer(x.Type())} {
					ms := prog.MethodSets.MethodSet(t)
					for i := 0; i < ms.Len(); i++ {
						f := prog.MethodValue(ms.At(i))
						if f != nil && f.Synthetic == "" && f.Pkg == sp {
							r.funcs[funcKey(f)] = f
						}
					}
				}
			}
		}
	}
	repoFuncs = r.funcs
	cs, err := loadContractsDir(dir)
	if err != nil {
		return nil, err
	}
	r.cs = cs
	return r, nil
}

func (r *Repo) newCtx(pkgName string) *Ctx {
	sp := r.pkgs[pkgName]
	c := &Ctx{prog: r.prog, pkg: sp, cs: r.cs, dts: map[string]bool{}, strlits: map[string]string{}, heap0: map[string]string{}, heapSrt: map[string]string{}, specs: map[string]*specInfo{}, refuted: map[string]bool{}}
	curPkg = sp.Pkg
	for _, sd := range r.cs.Specs {
		c.specs[sd.Name] = &specInfo{def: sd}
	}
	return c
}

var _ = ast.NewIdent

func usage() {
	fmt.Fprintln(os.Stderr, "usage: govc check -property <id> [-tier quick|thorough] | govc replay <file> | govc list | govc sweep-baseline")
	os.Exit(2)
}

func main() {
	if len(os.Args) < 2 {
		usage()
	}
	switch os.Args[1] {
	case "check":
		fs := flag.NewFlagSet("check", flag.ExitOnError)
		opt := &checkOpts{}
		fs.StringVar(&opt.property, "property", "", "property id")
		fs.StringVar(&opt.tier, "tier", "quick", "quick|thorough")
		fs.StringVar(&opt.repo, "repo", "/repo", "repository under verification")
		fs.StringVar(&opt.verif, "verif", "/verif", "verification directory")
		fs.StringVar(&opt.only, "only", "", "restrict to this function key (debugging; no evidence is written)")
		fs.BoolVar(&opt.verbose, "v", false, "verbose")
		fs.StringVar(&opt.overlay, "overlay", "", "orig=replacement[;...] load orig with the content of replacement (self-test)")
		fs.BoolVar(&opt.noReplay, "noreplay", false, "skip replay of failed obligations")
		fs.BoolVar(&opt.sweepUpdate, "sweep-update", false, "C06: rewrite sweep_baseline.json from the safety clauses discharged now (maintenance, never run by a check)")
		fs.Parse(os.Args[2:])
		os.Exit(runCheck(opt))
	case "replay":
		if len(os.Args) < 3 {
			usage()
		}
		os.Exit(runReplayFile(os.Args[2]))
	case "maploops":
		r, err := loadRepo("/repo", nil)
		if err != nil {
			fmt.Fprintln(os.Stderr, err)
			os.Exit(2)
		}
		var keys []string
		for k := range r.funcs {
			keys = append(keys, k)
		}
		sort.Strings(keys)
		for _, k := range keys {
			fn := r.funcs[k]
			var fns []*ssa.Function
			fns = append(fns, fn)
			fns = append(fns, fn.AnonFuncs...)
			for _, f := range fns {
				for _, b := range f.Blocks {
					for _, in := range b.Instrs {
						if rg, ok := in.(*ssa.Range); ok {
							if _, ok := rg.X.Type().Underlying().(*types.Map); ok {
								fmt.Printf("%-70s %s\n", k, r.prog.Fset.Position(rg.Pos()))
							}
						}
						if call, ok := in.(*ssa.Call); ok {
							if c := call.Call.StaticCallee(); c != nil && c.String() == "(*sync.Map).Range" {
								fmt.Printf("%-70s %s (sync.Map.Range)\n", k, r.prog.Fset.Position(call.Pos()))
							}
						}
					}
				}
			}
		}
	case "list":
		fs := flag.NewFlagSet("list", flag.ExitOnError)
		repo := fs.String("repo", "/repo", "repository")
		fs.Parse(os.Args[2:])
		r, err := loadRepo(*repo, nil)
		if err != nil {
			fmt.Fprintln(os.Stderr, err)
			os.Exit(2)
		}
		var keys []string
		for k := range r.cs.Funcs {
			keys = append(keys, k)
		}
		sort.Strings(keys)
		for _, k := range keys {
			fc := r.cs.Funcs[k]
			kind := "func"
			if fc.Pure {
				kind = "pure"
			} else if fc.Trusted {
				kind = "trusted"
			}
			_, exists := r.funcs[k]
			fmt.Printf("%-8s %-60s props=%v exists=%v\n", kind, k, allProps(fc), exists)
		}
	default:
		usage()
	}
}

func allProps(fc *FuncContract) []string {
	set := map[string]bool{}
	for _, p := range fc.Props {
		set[p] = true
	}
	for _, e := range fc.Ensures {
		for _, p := range e.Props {
			set[p] = true
		}
	}
	var out []string
	for p := range set {
		out = append(out, p)
	}
	sort.Strings(out)
	return out
}

func parseOverlay(spec string) map[string][]byte {
	if spec == "" {
		return nil
	}
	ov := map[string][]byte{}
	for _, pair := range strings.Split(spec, ";") {
		o, r, _ := strings.Cut(pair, "=")
		data, err := os.ReadFile(r)
		if err != nil {
			fmt.Fprintln(os.Stderr, err)
			os.Exit(2)
		}
		abs, _ := filepath.Abs(o)
		ov[abs] = data
	}
	return ov
}
