package main

import (
	"fmt"
	"go/ast"
	"go/constant"
	"go/parser"
	"go/token"
	"go/types"
	"strconv"
	"strings"

	"golang.org/x/tools/go/ssa"
)

type Env struct {
	loopOrd  int // when evaluating a clause of loop N: N (resolves the name "rangeindex")
	fr       *Frame
	st       *State
	old      *State
	binds    map[string]Val
	noLocals bool
}

func (e *Env) with(binds map[string]Val) *Env {
	n := *e
	n.binds = map[string]Val{}
	for k, v := range e.binds {
		n.binds[k] = v
	}
	for k, v := range binds {
		n.binds[k] = v
	}
	return &n
}

// splitTop splits s on sep at parenthesis depth 0 (outside quotes).
func splitTop(s, sep string) []string {
	var parts []string
	depth := 0
	start := 0
	inQ := byte(0)
	for i := 0; i < len(s); i++ {
		ch := s[i]
		if inQ != 0 {
			if ch == '\\' {
				i++
			} else if ch == inQ {
				inQ = 0
			}
			continue
		}
		switch ch {
		case '\'', '"':
			inQ = ch
		case '(', '[':
			depth++
		case ')', ']':
			depth--
		}
		if depth == 0 && strings.HasPrefix(s[i:], sep) {
			parts = append(parts, s[start:i])
			start = i + len(sep)
			i += len(sep) - 1
		}
	}
	parts = append(parts, s[start:])
	return parts
}

func fullyParenthesised(s string) bool {
	if len(s) < 2 || s[0] != '(' || s[len(s)-1] != ')' {
		return false
	}
	depth := 0
	for i := 0; i < len(s); i++ {
		switch s[i] {
		case '(':
			depth++
		case ')':
			depth--
			if depth == 0 && i != len(s)-1 {
				return false
			}
		}
	}
	return true
}

func (fr *Frame) evalClause(src string, env *Env) string {
	src = strings.TrimSpace(src)
	// quantifiers extend as far to the right as possible
	if strings.HasPrefix(src, "exists ") {
		// exists x :: {pat} body  ==  !(forall x :: {pat} !(body)); the pattern groups stay in front of the negated body
		head, body, ok := strings.Cut(src[len("exists "):], "::")
		if !ok {
			panic("exists without :: in " + src)
		}
		body = strings.TrimSpace(body)
		pats := ""
		for strings.HasPrefix(body, "{") {
			i := strings.Index(body, "}")
			if i <= 0 {
				break
			}
			pats += body[:i+1] + " "
			body = strings.TrimSpace(body[i+1:])
		}
		inner := fr.evalClause("forall "+head+":: "+pats+"!("+body+")", env)
		return "(not " + inner + ")"
	}
	if strings.HasPrefix(src, "forall ") {
		head, body, ok := strings.Cut(src[len("forall "):], "::")
		if !ok {
			panic("forall without :: in " + src)
		}
		binds := map[string]Val{}
		var decl []string
		var pats []string
		for _, v := range strings.Split(head, ",") {
			f := strings.Fields(v)
			ty := types.Type(types.Typ[types.Int])
			if len(f) == 2 {
				ty = contractType(f[1])
			}
			fr.ctx.n++
			bn := fmt.Sprintf("%s_q%d", f[0], fr.ctx.n)
			binds[f[0]] = Val{bn, ty}
			decl = append(decl, fmt.Sprintf("(%s %s)", bn, fr.ctx.sortOf(ty)))
		}
		body = strings.TrimSpace(body)
		// "{a; b}" is one multi-pattern; several groups "{a} {b}" are alternative patterns
		var groups []string
		for strings.HasPrefix(body, "{") {
			i := strings.Index(body, "}")
			if i <= 0 {
				break
			}
			pats = pats[:0]
			for _, p := range strings.Split(body[1:i], ";") {
				pats = append(pats, patternTerm(fr.evalExpr(strings.TrimSpace(p), env.with(binds)).T))
			}
			groups = append(groups, ":pattern ("+strings.Join(pats, " ")+")")
			body = strings.TrimSpace(body[i+1:])
		}
		inner := fr.evalClause(body, env.with(binds))
		if len(groups) > 0 {
			return fmt.Sprintf("(forall (%s) (! %s %s))", strings.Join(decl, " "), inner, strings.Join(groups, " "))
		}
		return fmt.Sprintf("(forall (%s) %s)", strings.Join(decl, " "), inner)
	}
	// precedence (lowest first): <==>, ==>, ||, &&, !, atom
	if iff := splitTop(src, "<==>"); len(iff) == 2 {
		return fmt.Sprintf("(= %s %s)", fr.evalClause(iff[0], env), fr.evalClause(iff[1], env))
	}
	if imp := splitTop(src, "==>"); len(imp) > 1 {
		return fmt.Sprintf("(=> %s %s)", fr.evalClause(imp[0], env), fr.evalClause(strings.Join(imp[1:], "==>"), env))
	}
	if dis := splitTop(src, "||"); len(dis) > 1 {
		var ts []string
		for _, p := range dis {
			ts = append(ts, fr.evalClause(p, env))
		}
		return "(or " + strings.Join(ts, " ") + ")"
	}
	if conj := splitTop(src, "&&"); len(conj) > 1 {
		var ts []string
		for _, p := range conj {
			ts = append(ts, fr.evalClause(p, env))
		}
		return "(and " + strings.Join(ts, " ") + ")"
	}
	if fullyParenthesised(src) {
		return fr.evalClause(src[1:len(src)-1], env)
	}
	if strings.HasPrefix(src, "!") && fullyParenthesised(strings.TrimSpace(src[1:])) {
		return "(not " + fr.evalClause(strings.TrimSpace(src[1:]), env) + ")"
	}
	return fr.evalExpr(src, env).T
}

// patternTerm makes a term usable as an E-matching pattern: a map read "(ite has (select (select V m) k) zero)"
// is represented by its select subterm ('if' cannot occur in patterns).
func patternTerm(t string) string {
	for strings.HasPrefix(t, "(ite ") {
		args := sexprArgs(t)
		if len(args) != 4 {
			break
		}
		t = args[2]
	}
	return t
}

// sexprArgs splits "(f a b c)" into ["f" "a" "b" "c"] at depth 1.
func sexprArgs(t string) []string {
	if len(t) < 2 || t[0] != '(' {
		return nil
	}
	var out []string
	depth, start := 0, -1
	for i := 1; i < len(t)-1; i++ {
		switch t[i] {
		case '(':
			if depth == 0 && start < 0 {
				start = i
			}
			depth++
		case ')':
			depth--
			if depth == 0 {
				out = append(out, t[start:i+1])
				start = -1
			}
		case ' ':
			if depth == 0 && start >= 0 {
				out = append(out, t[start:i])
				start = -1
			}
		default:
			if depth == 0 && start < 0 {
				start = i
			}
		}
	}
	if start >= 0 {
		out = append(out, t[start:len(t)-1])
	}
	return out
}

func (fr *Frame) evalExpr(src string, env *Env) Val {
	e, err := parser.ParseExpr(src)
	if err != nil {
		panic(fmt.Sprintf("contract expression %q: %v", src, err))
	}
	return fr.tr(e, env)
}

// realType is a stand-in Go type for contract-level reals (maps to SMT Real).
var realType = types.NewNamed(types.NewTypeName(token.NoPos, types.NewPackage("github.com/shopspring/decimal", "decimal"), "Decimal", nil), types.NewStruct(nil, nil), nil)

// goType resolves a Go type name used in typeis/as (basic types, map[string]interface{}, package-level named types).
func goType(name string) types.Type {
	switch name {
	case "bool":
		return types.Typ[types.Bool]
	case "string":
		return types.Typ[types.String]
	case "int":
		return types.Typ[types.Int]
	case "int32":
		return types.Typ[types.Int32]
	case "int64":
		return types.Typ[types.Int64]
	case "float64":
		return types.Typ[types.Float64]
	case "float32":
		return types.Typ[types.Float32]
	case "map[string]interface{}":
		return types.NewMap(types.Typ[types.String], types.NewInterfaceType(nil, nil))
	}
	return contractType(name)
}

var curPkg *types.Package

// pkgTypes maps a package name of the repository to its types.Package (contract scopes).
var pkgTypes = map[string]*types.Package{}

// withPkg evaluates f with names and types resolved in the scope of the named package.
func withPkg(name string, f func()) {
	saved := curPkg
	if tp, ok := pkgTypes[name]; ok {
		curPkg = tp
	}
	defer func() { curPkg = saved }()
	f()
}

// seqType is the contract-level type of mathematical sequences (snapshots of slices).
type seqType struct{ elem types.Type }

func (s *seqType) Underlying() types.Type { return s }
func (s *seqType) String() string         { return "seq[" + s.elem.String() + "]" }

// goTypeNoSeq: like contractType, but "[]T" is the Go slice type.
func goTypeNoSeq(name string) types.Type {
	if strings.HasPrefix(name, "[]") {
		return types.NewSlice(goTypeNoSeq(name[2:]))
	}
	if strings.HasPrefix(name, "*") {
		return types.NewPointer(goTypeNoSeq(name[1:]))
	}
	return contractType(name)
}

func contractType(name string) types.Type {
	if strings.HasPrefix(name, "[]") {
		return &seqType{contractType(name[2:])}
	}
	if strings.HasPrefix(name, "*") {
		return types.NewPointer(contractType(name[1:]))
	}
	if strings.HasPrefix(name, "map[") {
		if i := strings.Index(name, "]"); i > 0 {
			// inside a map the Go type is kept (a slice stays a slice): the map parameter is the real map reference and
			// its heaps are the real ones; only a top-level "[]T" parameter is a mathematical sequence
			return types.NewMap(goTypeNoSeq(name[4:i]), goTypeNoSeq(name[i+1:]))
		}
	}
	if q, n, ok := strings.Cut(name, "."); ok && curPkg != nil {
		for _, imp := range curPkg.Imports() {
			if imp.Name() == q {
				if o := imp.Scope().Lookup(n); o != nil {
					return o.Type()
				}
			}
		}
	}
	switch name {
	case "int":
		return types.Typ[types.Int]
	case "string":
		return types.Typ[types.String]
	case "bool":
		return types.Typ[types.Bool]
	case "real":
		return realType
	case "uint32":
		return types.Typ[types.Uint32]
	case "uint64":
		return types.Typ[types.Uint64]
	case "int64":
		return types.Typ[types.Int64]
	case "byte", "uint8":
		return types.Typ[types.Uint8]
	case "rune", "int32":
		return types.Typ[types.Int32]
	case "interface{}", "any":
		return types.NewInterfaceType(nil, nil)
	}
	if curPkg != nil {
		if o := curPkg.Scope().Lookup(name); o != nil {
			return o.Type()
		}
	}
	panic("unknown contract type " + name)
}

var specFuncs = map[string]types.Type{
	"NL": types.Typ[types.Int], "LS": types.Typ[types.Int], "LE": types.Typ[types.Int],
	"tolower": types.Typ[types.String], "sindex": types.Typ[types.Int], "hasprefix": types.Typ[types.Bool], "sconcat": types.Typ[types.String],
	"u16": types.Typ[types.Int], "bnd": types.Typ[types.Bool], "vld": types.Typ[types.Bool], "step": types.Typ[types.Int], "runelen": types.Typ[types.Int],
	"dscale": types.Typ[types.Int],
	"rcount": types.Typ[types.Int], "runeat": types.Typ[types.Int],
	"lsof": types.Typ[types.Int], "nlb": types.Typ[types.Int], "fmtint": types.Typ[types.String], "unfmtint": types.Typ[types.Int],
	"skipsp": types.Typ[types.Int], "width": types.Typ[types.Int], "rune": types.Typ[types.Int], "u16w": types.Typ[types.Int],
	"fsread":          types.Typ[types.String],
	"splitcnt": types.Typ[types.Int], "splitoff": types.Typ[types.Int], "splitpiece": types.Typ[types.String],
	"unicodeIsLetter": types.Typ[types.Bool], "unicodeIsDigit": types.Typ[types.Bool], "atoiok": types.Typ[types.Bool], "atoival": types.Typ[types.Int], "trimspace": types.Typ[types.String], "substr": types.Typ[types.String],
}

func (fr *Frame) lookupLocal(name string, st *State) (Val, bool) {
	// "x__2": the second local variable named x in source order (a name declared in two blocks of one function)
	if i := strings.LastIndex(name, "__"); i > 0 {
		if n, err := strconv.Atoi(name[i+2:]); err == nil && n >= 1 {
			as := fr.locals[name[:i]]
			if n <= len(as) && st.hasCell(as[n-1]) {
				et := as[n-1].Type().(*types.Pointer).Elem()
				return Val{fr.ctx.readCell(st, as[n-1], et, nil), et}, true
			}
			return Val{}, false
		}
	}
	as := fr.locals[name]
	for i := len(as) - 1; i >= 0; i-- {
		if st.hasCell(as[i]) {
			if av, ok := fr.ptrCells[as[i]]; ok && av.Elem && !isBuilder(av.Root) {
				// the cell holds the address of a slice element, which has no value in the model: reading it in a
				// contract would silently mean nil
				panic(fmt.Sprintf("contract refers to local %s, which holds the address of a slice element; name the element (xs[i]) instead", name))
			}
			et := as[i].Type().(*types.Pointer).Elem()
			return Val{fr.ctx.readCell(st, as[i], et, nil), et}, true
		}
	}
	return Val{}, false
}

func (fr *Frame) tr(e ast.Expr, env *Env) Val {
	c := fr.ctx
	switch x := e.(type) {
	case *ast.ParenExpr:
		return fr.tr(x.X, env)
	case *ast.Ident:
		switch x.Name {
		case "true", "false":
			return Val{x.Name, types.Typ[types.Bool]}
		case "nil":
			return Val{"0", types.Typ[types.UnsafePointer]}
		}
		if v, ok := env.binds[x.Name]; ok {
			return v
		}
		if v, ok := fr.ghost[x.Name]; ok && !env.noLocals {
			return v
		}
		if x.Name == "itermap" && env.loopOrd > 0 {
			// the map a "for k, v := range <expr>" loop ranges over (useful when <expr> is a call and has no name)
			if it, ok := fr.loopIterInfo[env.loopOrd]; ok && it.mt != nil {
				return Val{it.ref, it.mt}
			}
		}
		if x.Name == "iterpos" && env.loopOrd > 0 {
			if t, ok := env.st.heap[fr.loopIter[env.loopOrd]]; ok {
				return Val{t, types.Typ[types.Int]}
			}
		}
		if strings.HasPrefix(x.Name, "iterpos") {
			n, _ := strconv.Atoi(x.Name[len("iterpos"):])
			if t, ok := env.st.heap[fr.iterKeys[n]]; ok {
				return Val{t, types.Typ[types.Int]}
			}
		}
		if !env.noLocals && x.Name == "rangeover" && env.loopOrd > 0 {
			if v, ok := fr.loopRangeOver[env.loopOrd]; ok {
				return v
			}
		}
		if !env.noLocals && strings.HasPrefix(x.Name, "rangeover") && len(x.Name) > len("rangeover") {
			// rangeoverN: the slice ranged by loop N (usable in ensures clauses)
			if n, err := strconv.Atoi(x.Name[len("rangeover"):]); err == nil {
				if v, ok := fr.loopRangeOver[n]; ok {
					return v
				}
			}
		}
		if !env.noLocals && x.Name == "rangeindex" && env.loopOrd > 0 {
			if a, ok := fr.loopRangeIdx[env.loopOrd]; ok {
				return Val{fr.ctx.readCell(env.st, a, types.Typ[types.Int], nil), types.Typ[types.Int]}
			}
		}
		if !env.noLocals {
			if v, ok := fr.lookupLocal(x.Name, env.st); ok {
				return v
			}
			for _, p := range fr.fn.Params {
				if p.Name() == x.Name {
					return fr.vals[p]
				}
			}
			if fv, ok := fr.freeNames[x.Name]; ok {
				if a, ok := fr.addrs[fv]; ok {
					et := fv.Type().(*types.Pointer).Elem()
					return Val{fr.load0(env.st, a, token.NoPos).T, et}
				}
				if v, ok := fr.vals[fv]; ok {
					return v
				}
			}
			// a local that has not been declared yet on this path (early return): an arbitrary value of its type
			if fr.fn != nil {
				for _, b := range fr.fn.Blocks {
					for _, in := range b.Instrs {
						if a, ok := in.(*ssa.Alloc); ok && a.Comment == x.Name {
							et := a.Type().(*types.Pointer).Elem()
							return Val{c.fresh("undeclared_"+x.Name, c.sortOf(et)), et}
						}
					}
				}
			}
		}
		obj := curPkg.Scope().Lookup(x.Name)
		if obj == nil {
			for _, imp := range curPkg.Imports() {
				if o := imp.Scope().Lookup(x.Name); o != nil && strings.HasPrefix(imp.Path(), "github.com/juev/hledger-lsp") {
					obj = o
					break
				}
			}
		}
		if obj != nil {
			if k, ok := obj.(*types.Const); ok && k.Val().Kind() == constant.Int {
				n, _ := constant.Int64Val(k.Val())
				return Val{intLit(n), k.Type()}
			}
			if v, ok := obj.(*types.Var); ok {
				return Val{c.globalConst(v.Name(), v.Type()), v.Type()}
			}
		}
		panic(fmt.Sprintf("%s: unknown name %q in contract", fr.fname, x.Name))
	case *ast.BasicLit:
		switch x.Kind {
		case token.INT:
			n, _ := strconv.ParseInt(x.Value, 0, 64)
			return Val{intLit(n), types.Typ[types.Int]}
		case token.FLOAT:
			return Val{x.Value, realType}
		case token.CHAR:
			r, _, _, err := strconv.UnquoteChar(x.Value[1:len(x.Value)-1], '\'')
			if err != nil {
				panic(err)
			}
			return Val{intLit(int64(r)), types.Typ[types.Rune]}
		case token.STRING:
			s, _ := strconv.Unquote(x.Value)
			return Val{c.strlit(s), types.Typ[types.String]}
		}
	case *ast.SelectorExpr:
		base := fr.tr(x.X, env)
		return fr.selectField(base, x.Sel.Name, env)
	case *ast.IndexExpr:
		if id, ok := x.X.(*ast.Ident); ok && strings.HasPrefix(id.Name, "iterseen") {
			n, _ := strconv.Atoi(id.Name[len("iterseen"):])
			key := fr.iterKeys[n]
			if id.Name == "iterseen" && env.loopOrd > 0 {
				key = fr.loopIter[env.loopOrd]
			}
			arr, ok := env.st.heap[key]
			if !ok {
				panic("no iterator " + id.Name)
			}
			return Val{fmt.Sprintf("(select %s %s)", arr, fr.tr(x.Index, env).T), types.Typ[types.Bool]}
		}
		s := fr.tr(x.X, env)
		i := fr.tr(x.Index, env)
		switch u := s.Typ.Underlying().(type) {
		case *seqType:
			return Val{fmt.Sprintf("(sqat_%s %s %s)", c.sortOf(u), s.T, i.T), u.elem}
		case *types.Map:
			v, _ := c.mapLookup(env.st, u, s.T, i.T)
			return Val{v, u.Elem()}
		case *types.Slice:
			_, arr := c.elemHeap(env.st, u.Elem())
			return Val{fmt.Sprintf("(%s %s %s %s)", c.eltFn(u.Elem()), arr, s.T, i.T), u.Elem()}
		}
		return Val{fmt.Sprintf("(sat %s %s)", s.T, i.T), types.Typ[types.Byte]}
	case *ast.SliceExpr:
		s := fr.tr(x.X, env)
		lo, hi := "0", fmt.Sprintf("(slen %s)", s.T)
		if x.Low != nil {
			lo = fr.tr(x.Low, env).T
		}
		if x.High != nil {
			hi = fr.tr(x.High, env).T
		}
		return Val{fmt.Sprintf("(substr %s %s %s)", s.T, lo, hi), types.Typ[types.String]}
	case *ast.StarExpr:
		// *sb for sb *strings.Builder: the text the builder holds
		pv := fr.tr(x.X, env)
		if pt, ok := pv.Typ.Underlying().(*types.Pointer); ok && isBuilder(pt.Elem()) {
			_, arr := c.elemHeap(env.st, pt.Elem())
			return Val{fmt.Sprintf("(%s %s (mk-slice %s 0 1) 0)", c.eltFn(pt.Elem()), arr, pv.T), types.Typ[types.String]}
		}
		panic("contract expression: only a *strings.Builder can be dereferenced")
	case *ast.UnaryExpr:
		v := fr.tr(x.X, env)
		switch x.Op {
		case token.NOT:
			return Val{fmt.Sprintf("(not %s)", v.T), types.Typ[types.Bool]}
		case token.SUB:
			return Val{fmt.Sprintf("(- %s)", v.T), v.Typ}
		}
	case *ast.BinaryExpr:
		l, r := fr.tr(x.X, env), fr.tr(x.Y, env)
		b := types.Typ[types.Bool]
		switch x.Op {
		case token.LAND:
			return Val{fmt.Sprintf("(and %s %s)", l.T, r.T), b}
		case token.LOR:
			return Val{fmt.Sprintf("(or %s %s)", l.T, r.T), b}
		case token.EQL:
			if strings.HasPrefix(l.T, "@addr") || strings.HasPrefix(r.T, "@addr") {
				if l.T == r.T {
					return Val{"true", b}
				}
				return Val{"false", b} // the address of a location is never nil (and stand-ins are only compared with nil)
			}
			return Val{fmt.Sprintf("(= %s %s)", l.T, r.T), b}
		case token.NEQ:
			if strings.HasPrefix(l.T, "@addr") || strings.HasPrefix(r.T, "@addr") {
				if l.T == r.T {
					return Val{"false", b}
				}
				return Val{"true", b}
			}
			return Val{fmt.Sprintf("(not (= %s %s))", l.T, r.T), b}
		case token.LSS:
			return Val{fmt.Sprintf("(< %s %s)", l.T, r.T), b}
		case token.LEQ:
			return Val{fmt.Sprintf("(<= %s %s)", l.T, r.T), b}
		case token.GTR:
			return Val{fmt.Sprintf("(> %s %s)", l.T, r.T), b}
		case token.GEQ:
			return Val{fmt.Sprintf("(>= %s %s)", l.T, r.T), b}
		case token.ADD:
			return Val{fmt.Sprintf("(+ %s %s)", l.T, r.T), l.Typ}
		case token.SUB:
			return Val{fmt.Sprintf("(- %s %s)", l.T, r.T), l.Typ}
		case token.MUL:
			return Val{fmt.Sprintf("(* %s %s)", l.T, r.T), l.Typ}
		case token.QUO:
			return Val{fmt.Sprintf("(div %s %s)", l.T, r.T), l.Typ}
		case token.REM:
			return Val{fmt.Sprintf("(mod %s %s)", l.T, r.T), l.Typ}
		}
	case *ast.CallExpr:
		fn, ok := x.Fun.(*ast.Ident)
		if !ok {
			panic("contract: unsupported call")
		}
		switch fn.Name {
		case "len":
			v := fr.tr(x.Args[0], env)
			if _, ok := v.Typ.(*seqType); ok {
				return Val{fmt.Sprintf("(sq.len %s)", v.T), types.Typ[types.Int]}
			}
			if c.sortOf(v.Typ) == "Slice" {
				return Val{fmt.Sprintf("(sl.len %s)", v.T), types.Typ[types.Int]}
			}
			if mt, ok := v.Typ.Underlying().(*types.Map); ok {
				_, _, dom, _ := c.mapHeaps(env.st, mt)
				return Val{fmt.Sprintf("(%s (select %s %s))", c.mcardFn(mt), dom, v.T), types.Typ[types.Int]}
			}
			return Val{fmt.Sprintf("(slen %s)", v.T), types.Typ[types.Int]}
		case "has":
			m, k := fr.tr(x.Args[0], env), fr.tr(x.Args[1], env)
			_, has := c.mapLookup(env.st, m.Typ.Underlying().(*types.Map), m.T, k.T)
			return Val{has, types.Typ[types.Bool]}
		case "typeis", "as":
			v := fr.tr(x.Args[0], env)
			var tn string
			switch a := x.Args[1].(type) {
			case *ast.Ident:
				tn = a.Name
			case *ast.BasicLit:
				tn, _ = strconv.Unquote(a.Value)
			default:
				panic("typeis: bad type argument")
			}
			ty := goType(tn)
			id, acc := c.ifaceTag(ty)
			if fn.Name == "typeis" {
				return Val{fmt.Sprintf("(= (iftag %s) %d)", v.T, id), types.Typ[types.Bool]}
			}
			return Val{fmt.Sprintf("(%s %s)", acc, v.T), ty}
		case "box":
			v := fr.tr(x.Args[0], env)
			return Val{c.boxTerm(v), types.NewInterfaceType(nil, nil)}
		case "smhas", "smget":
			sel, ok := x.Args[0].(*ast.SelectorExpr)
			if !ok {
				panic("smhas/smget: first argument must be a field selector of type sync.Map")
			}
			base := fr.tr(sel.X, env)
			pt, ok := base.Typ.Underlying().(*types.Pointer)
			if !ok {
				panic("smhas/smget: owner must be a pointer")
			}
			n := pt.Elem().(*types.Named)
			stt := n.Underlying().(*types.Struct)
			fk := ""
			for i := 0; i < stt.NumFields(); i++ {
				if stt.Field(i).Name() == sel.Sel.Name && isSyncMap(stt.Field(i).Type()) {
					fk, _ = c.heapKey(n, i)
				}
			}
			if fk == "" {
				panic("smhas/smget: " + sel.Sel.Name + " is not a sync.Map field")
			}
			_, _, dom, val := c.syncMapHeaps(env.st, fk)
			k := fr.tr(x.Args[1], env)
			kt := k.T
			if c.sortOf(k.Typ) != "Iface" {
				kt = c.boxTerm(k)
			}
			has := fmt.Sprintf("(select (select %s %s) %s)", dom, base.T, kt)
			if fn.Name == "smhas" {
				return Val{has, types.Typ[types.Bool]}
			}
			return Val{fmt.Sprintf("(ite %s (select (select %s %s) %s) ifnil)", has, val, base.T, kt), types.NewInterfaceType(nil, nil)}
		case "allocated":
			v := fr.tr(x.Args[0], env)
			return Val{fmt.Sprintf("(<= %s %s)", v.T, fr.allocTerm(env.st)), types.Typ[types.Bool]}
		case "fresh":
			v := fr.tr(x.Args[0], env)
			var before string
			if b, ok := env.binds["$allocBefore"]; ok {
				before = b.T
			} else {
				before = fr.allocTerm(env.old)
			}
			if fr.ctx.sortOf(v.Typ) == "Slice" {
				return Val{fmt.Sprintf("(> (sl.arr %s) %s)", v.T, before), types.Typ[types.Bool]}
			}
			return Val{fmt.Sprintf("(> %s %s)", v.T, before), types.Typ[types.Bool]}
		case "abs":
			v := fr.tr(x.Args[0], env)
			return Val{fmt.Sprintf("(ite (< %s 0.0) (- %s) %s)", v.T, v.T, v.T), v.Typ}
		case "dmul":
			a, b := fr.tr(x.Args[0], env), fr.tr(x.Args[1], env)
			return Val{fmt.Sprintf("(dmul %s %s)", a.T, b.T), a.Typ}
		case "old":
			n := *env
			n.st = env.old
			return fr.tr(x.Args[0], &n)
		case "atloop":
			ord, _ := strconv.Atoi(x.Args[0].(*ast.BasicLit).Value)
			hs, ok := fr.loopHead[ord]
			if !ok {
				panic("atloop: loop head state not available")
			}
			n := *env
			n.st = hs
			return fr.tr(x.Args[1], &n)
		case "ite":
			cnd, a, b := fr.tr(x.Args[0], env), fr.tr(x.Args[1], env), fr.tr(x.Args[2], env)
			return Val{fmt.Sprintf("(ite %s %s %s)", cnd.T, a.T, b.T), a.Typ}
		}
		if p, ok := c.cs.lookupPred(curPkg.Name(), fn.Name); ok {
			binds := map[string]Val{}
			if len(x.Args) != len(p.Params) {
				panic(fmt.Sprintf("pred %s: %d arguments, want %d", p.Name, len(x.Args), len(p.Params)))
			}
			for i, pn := range p.Params {
				binds[pn] = fr.tr(x.Args[i], env)
			}
			n := *env
			n.binds = binds
			n.noLocals = true
			var out string
			withPkg(p.Pkg, func() { out = fr.evalClause(p.Body, &n) })
			return Val{out, types.Typ[types.Bool]}
		}
		if si, ok := c.specs[fn.Name]; ok {
			fr.elaborate(si)
			var as []string
			for _, k := range si.keys {
				as = append(as, c.heapGetSort(env.st, k, c.heapSrt[k]))
			}
			for i, a := range x.Args {
				v := fr.tr(a, env)
				if i < len(si.def.Params) {
					var pt types.Type
					withPkg(si.def.Pkg, func() { pt = contractType(si.def.Params[i][1]) })
					if st, ok := pt.(*seqType); ok {
						v = fr.toSeq(v, st, env)
					}
				}
				as = append(as, v.T)
			}
			return Val{fmt.Sprintf("(%s %s)", fn.Name, strings.Join(as, " ")), si.ret}
		}
		if rt, ok := fr.specdefs[fn.Name]; ok {
			var as []string
			for _, a := range x.Args {
				as = append(as, fr.tr(a, env).T)
			}
			return Val{fmt.Sprintf("(%s %s)", fn.Name, strings.Join(as, " ")), rt}
		}
		if ffn, ffc := c.lookupFunctional(fn.Name); ffn != nil {
			sym, pts, rt := c.funcSym(ffn, ffc)
			var as []string
			for i, a := range x.Args {
				v := fr.tr(a, env)
				if st, ok := pts[i].(*seqType); ok {
					v = fr.toSeq(v, st, env)
				}
				as = append(as, v.T)
			}
			return Val{fmt.Sprintf("(%s %s)", sym, strings.Join(as, " ")), rt}
		}
		if fn.Name == "bslice" {
			pv := fr.tr(x.Args[0], env)
			pt := pv.Typ.Underlying().(*types.Pointer)
			return Val{fmt.Sprintf("(mk-slice %s 0 1)", pv.T), types.NewSlice(pt.Elem())}
		}
		if fn.Name == "seq" {
			v := fr.tr(x.Args[0], env)
			sl, ok := v.Typ.Underlying().(*types.Slice)
			if !ok {
				panic("seq: argument is not a slice")
			}
			return fr.toSeq(v, &seqType{sl.Elem()}, env)
		}
		if fn.Name == "concat" {
			fn.Name = "sconcat"
		}
		if (fn.Name == "mtrue" || fn.Name == "mtrueseen") && len(x.Args) == 1 {
			// mtrue(m): number of keys of the map[K]bool m that are present with the value true;
			// mtrueseen(m): the same over the keys the enclosing map-range loop has visited so far
			m := fr.tr(x.Args[0], env)
			mt, ok := m.Typ.Underlying().(*types.Map)
			if !ok || c.sortOf(mt.Elem()) != "Bool" {
				panic("mtrue: argument must be a map with bool values")
			}
			_, _, dom, val := c.mapHeaps(env.st, mt)
			d := fmt.Sprintf("(select %s %s)", dom, m.T)
			if fn.Name == "mtrueseen" {
				key := fr.loopIter[env.loopOrd]
				arr, ok := env.st.heap[key]
				if !ok {
					panic("mtrueseen: no map iterator in this loop")
				}
				d = arr
			}
			return Val{fmt.Sprintf("(%s %s (select %s %s))", c.mtrueFn(mt), d, val, m.T), types.Typ[types.Int]}
		}
		if fn.Name == "trimleft" && len(x.Args) == 2 {
			lit, ok := x.Args[1].(*ast.BasicLit)
			if !ok {
				panic("trimleft: the cutset must be a string literal")
			}
			cs, _ := strconv.Unquote(lit.Value)
			return Val{fmt.Sprintf("(%s %s)", c.trimLeftFn(cs), fr.tr(x.Args[0], env).T), types.Typ[types.Int]}
		}
		if fn.Name == "trimright" && len(x.Args) == 2 {
			// trimright(s, "cutset"): length of strings.TrimRight(s, cutset) for a constant ASCII cutset
			lit, ok := x.Args[1].(*ast.BasicLit)
			if !ok {
				panic("trimright: the cutset must be a string literal")
			}
			cs, _ := strconv.Unquote(lit.Value)
			return Val{fmt.Sprintf("(%s %s)", c.trimRightFn(cs), fr.tr(x.Args[0], env).T), types.Typ[types.Int]}
		}
		if rt, ok := specFuncs[fn.Name]; ok {
			var as []string
			for _, a := range x.Args {
				as = append(as, fr.tr(a, env).T)
			}
			return Val{fmt.Sprintf("(%s %s)", fn.Name, strings.Join(as, " ")), rt}
		}
		panic("contract: unknown function " + fn.Name)
	}
	panic(fmt.Sprintf("contract: unsupported expression %T", e))
}

func (fr *Frame) selectField(base Val, name string, env *Env) Val {
	c := fr.ctx
	t := base.Typ
	if a, ok := c.addrVals[base.T]; ok {
		// pointer stand-in: read the addressed struct in the state of the clause, then select on the value
		if pt, ok := t.Underlying().(*types.Pointer); ok {
			v := fr.load0(env.st, a, token.NoPos)
			return fr.selectField(Val{v.T, pt.Elem()}, name, env)
		}
	}
	if p, ok := t.Underlying().(*types.Pointer); ok {
		n := p.Elem().(*types.Named)
		st := n.Underlying().(*types.Struct)
		for i := 0; i < st.NumFields(); i++ {
			if st.Field(i).Name() == name {
				key, ft := c.heapKey(n, i)
				arr := c.heapGet(env.st, key, ft)
				return Val{fmt.Sprintf("(select %s %s)", arr, base.T), ft}
			}
		}
		for i := 0; i < st.NumFields(); i++ {
			if st.Field(i).Embedded() && hasFieldDeep(st.Field(i).Type(), name) {
				key, ft := c.heapKey(n, i)
				arr := c.heapGet(env.st, key, ft)
				return fr.selectField(Val{fmt.Sprintf("(select %s %s)", arr, base.T), ft}, name, env)
			}
		}
		panic("no field " + name)
	}
	if st, ok := t.Underlying().(*types.Struct); ok {
		for i := 0; i < st.NumFields(); i++ {
			if st.Field(i).Name() == name {
				tt, ty := c.pathGet(base.T, t, []int{i})
				return Val{tt, ty}
			}
		}
		// promoted field of an embedded struct
		for i := 0; i < st.NumFields(); i++ {
			if st.Field(i).Embedded() {
				if _, ok := st.Field(i).Type().Underlying().(*types.Struct); ok {
					tt, ty := c.pathGet(base.T, t, []int{i})
					if hasFieldDeep(ty, name) {
						return fr.selectField(Val{tt, ty}, name, env)
					}
				}
			}
		}
	}
	panic(fmt.Sprintf("cannot select %s on %v", name, t))
}

func hasFieldDeep(t types.Type, name string) bool {
	st, ok := t.Underlying().(*types.Struct)
	if !ok {
		return false
	}
	for i := 0; i < st.NumFields(); i++ {
		if st.Field(i).Name() == name || (st.Field(i).Embedded() && hasFieldDeep(st.Field(i).Type(), name)) {
			return true
		}
	}
	return false
}

var _ = ssa.NaiveForm

// elaborate computes the heap arrays a package-level spec function reads (to a fixpoint) and declares it.
func (fr *Frame) elaborate(si *specInfo) {
	c := fr.ctx
	if si.declared || si.busy {
		return
	}
	si.busy = true
	saved := curPkg
	if tp, ok := pkgTypes[si.def.Pkg]; ok {
		curPkg = tp
	}
	defer func() { curPkg = saved }()
	si.ret = contractType(si.def.Ret)
	if si.def.Body == "" {
		// uninterpreted: declared, never defined
		var sorts []string
		for _, pr := range si.def.Params {
			sorts = append(sorts, c.sortOf(contractType(pr[1])))
		}
		c.decls = append(c.decls, fmt.Sprintf("(declare-fun %s (%s) %s)", si.def.Name, strings.Join(sorts, " "), c.sortOf(si.ret)))
		si.declared = true
		si.busy = false
		return
	}
	var body string
	var decl, names, sorts []string
	for iter := 0; iter < 6; iter++ {
		pst := &State{pc: "true", cells: map[cellKey]string{}, heap: map[string]string{}, param: &paramHeap{vars: map[string]string{}}}
		for _, k := range si.keys {
			c.paramVar(pst, k, c.heapSrt[k])
		}
		binds := map[string]Val{}
		decl, names, sorts = nil, nil, nil
		for _, pr := range si.def.Params {
			ty := contractType(pr[1])
			bn := "sp_" + pr[0]
			binds[pr[0]] = Val{bn, ty}
			decl = append(decl, fmt.Sprintf("(%s %s)", bn, c.sortOf(ty)))
			sorts = append(sorts, c.sortOf(ty))
			names = append(names, bn)
		}
		if si.def.Ret == "bool" {
			body = fr.evalClause(si.def.Body, &Env{fr: fr, st: pst, old: pst, binds: binds, noLocals: true})
		} else {
			body = fr.evalExpr(si.def.Body, &Env{fr: fr, st: pst, old: pst, binds: binds, noLocals: true}).T
		}
		if len(pst.param.order) == len(si.keys) {
			break
		}
		si.keys = append([]string{}, pst.param.order...)
	}
	var hdecl, hnames, hsorts []string
	for _, k := range si.keys {
		hn := "hp_" + sanitize(k)
		hdecl = append(hdecl, fmt.Sprintf("(%s %s)", hn, c.heapSrt[k]))
		hnames = append(hnames, hn)
		hsorts = append(hsorts, c.heapSrt[k])
	}
	c.decls = append(c.decls, fmt.Sprintf("(declare-fun %s (%s) %s)", si.def.Name, strings.Join(append(hsorts, sorts...), " "), c.sortOf(si.ret)))
	app := fmt.Sprintf("(%s %s)", si.def.Name, strings.Join(append(hnames, names...), " "))
	c.defs = append(c.defs, fmt.Sprintf("(assert (forall (%s) (! (= %s %s) :pattern (%s))))", strings.Join(append(hdecl, decl...), " "), app, body, app))
	si.declared = true
	si.busy = false
}

func (fr *Frame) toSeq(v Val, st *seqType, env *Env) Val {
	c := fr.ctx
	if _, ok := v.Typ.(*seqType); ok {
		return v
	}
	if sl, ok := v.Typ.Underlying().(*types.Slice); ok {
		name := c.sortOf(st)
		_, arr := c.elemHeap(env.st, sl.Elem())
		return Val{fmt.Sprintf("(mk-%s (select %s (sl.arr %s)) (sl.off %s) (sl.len %s))", name, arr, v.T, v.T, v.T), st}
	}
	panic("cannot convert to seq: " + v.Typ.String())
}

// lemma support: returns (axiom formula, proof obligations) for a package-level lemma.
func (fr *Frame) lemmaAxiom(l Lemma) (out string) {
	saved := curPkg
	if tp, ok := pkgTypes[l.Pkg]; ok {
		curPkg = tp
	}
	defer func() { curPkg = saved }()
	var ps []string
	for _, p := range l.Params {
		ps = append(ps, p[0]+" "+p[1])
	}
	st := &State{pc: "true", cells: map[cellKey]string{}, heap: map[string]string{}}
	return fr.evalClause("forall "+strings.Join(ps, ", ")+" :: "+l.Body, &Env{fr: fr, st: st, old: st, noLocals: true, binds: map[string]Val{}})
}

func (fr *Frame) lemmaObligation(l Lemma) (assumptions []string, goal string) {
	saved := curPkg
	if tp, ok := pkgTypes[l.Pkg]; ok {
		curPkg = tp
	}
	defer func() { curPkg = saved }()
	c := fr.ctx
	st := &State{pc: "true", cells: map[cellKey]string{}, heap: map[string]string{}}
	binds := map[string]Val{}
	for _, p := range l.Params {
		ty := contractType(p[1])
		binds[p[0]] = Val{c.fresh("lm_"+p[0], c.sortOf(ty)), ty}
	}
	body := l.Body
	// strip trigger for the goal
	if strings.HasPrefix(strings.TrimSpace(body), "{") {
		body = strings.TrimSpace(body)
		body = strings.TrimSpace(body[strings.Index(body, "}")+1:])
	}
	goal = fr.evalClause(body, &Env{fr: fr, st: st, old: st, noLocals: true, binds: binds})
	if l.Induct != "" {
		var ps []string
		for _, p := range l.Params {
			ps = append(ps, p[0]+" "+p[1])
		}
		trig := ""
		tb := strings.TrimSpace(l.Body)
		if strings.HasPrefix(tb, "{") {
			trig = tb[:strings.Index(tb, "}")+1]
		}
		ih := fmt.Sprintf("forall %s :: %s 0 <= %s && %s < IND0 ==> (%s)", strings.Join(ps, ", "), trig, l.Induct, l.Induct, body)
		b2 := map[string]Val{"IND0": binds[l.Induct]}
		assumptions = append(assumptions, fr.evalClause(ih, &Env{fr: fr, st: st, old: st, noLocals: true, binds: b2}))
	}
	return
}
