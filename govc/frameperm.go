package main

// Write permissions and frames for maps and slice backing arrays (DESIGN.md 3.11: allocation counter + modifies).

import (
	"fmt"
	"go/types"
	"strings"

	"golang.org/x/tools/go/ssa"
)

// modRef: a map the function / loop / callee may modify, with the name of its Go map type (maps of different
// types live in different heaps; references are only comparable within one type).
type modRef struct {
	term string
	tn   string // sanitized type name as used in the heap keys Mdom:<tn> / Mval:<tn>
}

// modInner: "o[*][*]" — every inner map stored in the outer map o (evaluated in state at).
type modInner struct {
	outer string
	ot    *types.Map // type of the outer map
	at    *State
}

type loopMod struct {
	refs  []modRef
	inner []modInner
	alloc string // allocation counter at the loop head
	noElems bool // "loop N modifies nothing": no backing array that existed at the loop head is written in the loop either
}

func (c *Ctx) mapTypeName(m *types.Map) string {
	return sanitize(types.TypeString(m, func(p *types.Package) string { return p.Name() }))
}

// evalModMaps evaluates the "m[*]" / "m[*][*]" entries of a modifies clause in state st.
func (fr *Frame) evalModMaps(exprs []string, st *State, binds map[string]Val, noLocals bool) (refs []modRef, inner []modInner) {
	c := fr.ctx
	for _, e := range exprs {
		deep := strings.HasSuffix(e, "[*]")
		ex := strings.TrimSuffix(e, "[*]")
		v := fr.evalExpr(ex, &Env{fr: fr, st: st, old: st, binds: binds, noLocals: noLocals})
		mt, ok := v.Typ.Underlying().(*types.Map)
		if !ok {
			panic("modifies: " + ex + " is not a map")
		}
		if deep {
			if _, ok := mt.Elem().Underlying().(*types.Map); !ok {
				panic("modifies: " + e + "[*]: elements of " + ex + " are not maps")
			}
			inner = append(inner, modInner{outer: v.T, ot: mt, at: st.clone()})
			continue
		}
		refs = append(refs, modRef{v.T, c.mapTypeName(mt)})
	}
	return
}

// permitted returns the disjuncts under which map reference r (of map type tn) is covered by refs/inner.
func (fr *Frame) permittedAlts(r, tn string, refs []modRef, inner []modInner) []string {
	c := fr.ctx
	var alts []string
	for _, m := range refs {
		if m.tn == tn {
			alts = append(alts, fmt.Sprintf("(= %s %s)", r, m.term))
		}
	}
	for _, in := range inner {
		it := in.ot.Elem().Underlying().(*types.Map)
		if c.mapTypeName(it) != tn {
			continue
		}
		_, _, dom, val := c.mapHeaps(in.at, in.ot)
		c.n++
		q := fmt.Sprintf("t_q%d", c.n)
		alts = append(alts, fmt.Sprintf("(exists ((%s %s)) (and (select (select %s %s) %s) (= %s (select (select %s %s) %s))))", q, c.sortOf(in.ot.Key()), dom, in.outer, q, r, val, in.outer, q))
	}
	return alts
}

func orOf(alts []string) string {
	switch len(alts) {
	case 0:
		return "false"
	case 1:
		return alts[0]
	}
	return "(or " + strings.Join(alts, " ") + ")"
}

// mapWritePermission: the map m (of type mt) is fresh since function entry or covered by the function's modifies, and
// for every enclosing loop with a modifies clause: covered there or fresh since that loop's head.
func (fr *Frame) mapWritePermission(st *State, m string, mt *types.Map, blk *ssa.BasicBlock) string {
	if fr.writeAll {
		return "true"
	}
	tn := fr.ctx.mapTypeName(mt)
	alts := append([]string{fmt.Sprintf("(> %s %s)", m, fr.allocTerm(fr.entry))}, fr.permittedAlts(m, tn, fr.fnModMaps, fr.fnModInner)...)
	conj := []string{orOf(alts)}
	for _, lm := range append(append([]*loopMod{}, fr.curLoops...), fr.loopOf[blk]...) {
		a2 := append([]string{fmt.Sprintf("(> %s %s)", m, lm.alloc)}, fr.permittedAlts(m, tn, lm.refs, lm.inner)...)
		conj = append(conj, orOf(a2))
	}
	if len(conj) == 1 {
		return conj[0]
	}
	return "(and " + strings.Join(conj, " ") + ")"
}

// havocMapKey replaces heap key k (Mdom:/Mval:/E:) of st by a fresh array that agrees with the previous one on every
// reference that existed at `bound` and is not covered by the permission (refs/inner/elem arrays).
func (fr *Frame) havocHeapKey(st *State, k, bound string, refs []modRef, inner []modInner, elemArrs []string, hint string) {
	c := fr.ctx
	old := c.heapGetSort(st, k, c.heapSrt[k])
	nh := c.fresh(hint, c.heapSrt[k])
	c.n++
	q := fmt.Sprintf("r_q%d", c.n)
	var perm []string
	if strings.HasPrefix(k, "E:") {
		for _, a := range elemArrs {
			perm = append(perm, fmt.Sprintf("(= %s %s)", q, a))
		}
	} else {
		tn := k[strings.Index(k, ":")+1:]
		perm = fr.permittedAlts(q, tn, refs, inner)
	}
	guard := fmt.Sprintf("(<= %s %s)", q, bound)
	if len(perm) > 0 {
		guard = fmt.Sprintf("(and %s (not %s))", guard, orOf(perm))
		if !strings.HasPrefix(k, "E:") {
			guard = fmt.Sprintf("(or (= %s 0) %s)", q, guard) // the nil map is never written, whatever the permission says
		}
	}
	fr.assume(st, fmt.Sprintf("(forall ((%s Int)) (! (=> %s (= (select %s %s) (select %s %s))) :pattern ((select %s %s))))", q, guard, nh, q, old, q, nh, q))
	if strings.HasPrefix(k, "E:") {
		name := "elt_" + k[2:]
		if c.dts[name] {
			c.n++
			s, kk := fmt.Sprintf("s_q%d", c.n), fmt.Sprintf("k_q%d", c.n)
			g2 := fmt.Sprintf("(<= (sl.arr %s) %s)", s, bound)
			if len(elemArrs) > 0 {
				var ex []string
				for _, a := range elemArrs {
					ex = append(ex, fmt.Sprintf("(= (sl.arr %s) %s)", s, a))
				}
				g2 = fmt.Sprintf("(and %s (not %s))", g2, orOf(ex))
			}
			fr.assume(st, fmt.Sprintf("(forall ((%s Slice) (%s Int)) (! (=> %s (= (%s %s %s %s) (%s %s %s %s))) :pattern ((%s %s %s %s))))", s, kk, g2, name, nh, s, kk, name, old, s, kk, name, nh, s, kk))
		}
	}
	st.heap[k] = nh
}

// child makes the frame for an inlined callee / closure: it shares the write permissions of the function under proof.
func (fr *Frame) child(fn *ssa.Function) *Frame {
	return &Frame{loopHead: map[int]*State{}, loopOf: map[*ssa.BasicBlock][]*loopMod{}, fnModMaps: fr.fnModMaps, fnModInner: fr.fnModInner, ctx: fr.ctx, fn: fn,
		vals: map[ssa.Value]Val{}, tuples: map[ssa.Value][]Val{}, addrs: map[ssa.Value]Addr{}, depth: fr.depth + 1, locals: map[string][]*ssa.Alloc{},
		fname: fr.fname, entry: fr.entry, ptrParams: fr.ptrParams, refParams: fr.refParams, iters: map[ssa.Value]iterInfo{}, iterKeys: map[int]string{},
		specdefs: fr.specdefs, inCommute: fr.inCommute, writeSet: fr.writeSet, writeAll: fr.writeAll, elemWrite: fr.elemWrite, ghost: fr.ghost, curLoops: fr.curLoops}
}
