package main

import (
	"context"
	"crypto/sha256"
	"fmt"
	"os"
	"os/exec"
	"path/filepath"
	"strings"
	"sync"
	"time"
)

const optsZ3 = "(set-option :smt.auto_config false)\n(set-option :smt.mbqi false)\n"

type Attempt struct {
	Solver  string  `json:"solver"`
	Verdict string  `json:"verdict"`
	Secs    float64 `json:"solver_s"`
	Out     string  `json:"output,omitempty"`
}

type Result struct {
	Obl      Obligation
	Verdict  string // unsat | sat | unknown | timeout | error
	Solver   string
	Secs     float64
	Attempts []Attempt
	File     string
}

type solverSpec struct {
	name string
	argv func(file string, timeout time.Duration) []string
	opts string
}

var solverZ3New = solverSpec{"z3-5.1.0", func(f string, t time.Duration) []string {
	return []string{"z3-new", fmt.Sprintf("-T:%d", int(t.Seconds())), f}
}, optsZ3}
var solverZ3Old = solverSpec{"z3-4.8.12", func(f string, t time.Duration) []string {
	return []string{"/usr/bin/z3", fmt.Sprintf("-T:%d", int(t.Seconds())), f}
}, optsZ3}
// the same two z3 builds with their default configuration (auto_config, model-based quantifier instantiation): they
// decide some quantified goals the pure e-matching configuration gives up on at once. Only an unsat is ever used from them
// to discharge; a sat is reported like any other back end's.
var solverZ3NewAuto = solverSpec{"z3-5.1.0-auto", func(f string, t time.Duration) []string {
	return []string{"z3-new", fmt.Sprintf("-T:%d", int(t.Seconds())), f}
}, ""}
var solverZ3OldAuto = solverSpec{"z3-4.8.12-auto", func(f string, t time.Duration) []string {
	return []string{"/usr/bin/z3", fmt.Sprintf("-T:%d", int(t.Seconds())), f}
}, ""}
var solverCVC5 = solverSpec{"cvc5-1.0.3", func(f string, t time.Duration) []string {
	return []string{"cvc5", fmt.Sprintf("--tlimit=%d", int(t.Milliseconds())), "--lang=smt2", f}
}, "(set-logic ALL)\n"}

func runOne(sp solverSpec, dir, base, query string, timeout time.Duration) Attempt {
	path := filepath.Join(dir, base+"."+sp.name+".smt2")
	if err := os.WriteFile(path, []byte(sp.opts+query), 0o644); err != nil {
		return Attempt{Solver: sp.name, Verdict: "error", Out: err.Error()}
	}
	argv := sp.argv(path, timeout)
	ctx, cancel := context.WithTimeout(context.Background(), timeout+5*time.Second)
	defer cancel()
	start := time.Now()
	cmd := exec.CommandContext(ctx, argv[0], argv[1:]...)
	out, err := cmd.CombinedOutput()
	secs := time.Since(start).Seconds()
	first := ""
	for _, l := range strings.Split(string(out), "\n") {
		l = strings.TrimSpace(l)
		if l == "" || strings.HasPrefix(l, "WARNING") || strings.HasPrefix(l, "(warning") {
			continue
		}
		first = l
		break
	}
	verdict := first
	switch {
	case first == "unsat" || first == "sat" || first == "unknown":
	case first == "timeout" || ctx.Err() != nil || strings.Contains(first, "interrupted by timeout") || strings.Contains(string(out), "timeout"):
		verdict = "timeout"
	default:
		verdict = "error"
		if err == nil && first == "" {
			verdict = "unknown"
		}
	}
	o := string(out)
	if len(o) > 2000 {
		o = o[:2000]
	}
	if verdict == "unsat" {
		o = ""
		os.Remove(path)
	}
	return Attempt{Solver: sp.name, Verdict: verdict, Secs: secs, Out: o}
}

func fileBase(name string) string {
	safe := sanitize(name)
	if len(safe) > 100 {
		safe = safe[:100]
	}
	h := sha256.Sum256([]byte(name))
	return fmt.Sprintf("%s_%x", safe, h[:4])
}

// discharge runs the solver portfolio on one obligation. Quick tier: z3 5.1.0 first, the other two only when it
// does not answer unsat. Thorough tier: all three always; one sat anywhere makes the obligation failed.
func discharge(o Obligation, dir string, thorough bool, timeout time.Duration) Result {
	base := fileBase(o.Name)
	res := Result{Obl: o}
	if thorough {
		// every obligation goes to both z3 versions; cvc5 cross-checks a seeded sample (it times out on most of the
		// quantified queries, so running it everywhere would only burn the time limit)
		specs := []solverSpec{solverZ3New, solverZ3Old}
		if o.Sample {
			specs = append(specs, solverCVC5)
		}
		var wg sync.WaitGroup
		atts := make([]Attempt, len(specs))
		for i, sp := range specs {
			wg.Add(1)
			go func(i int, sp solverSpec) {
				defer wg.Done()
				to := timeout
				if sp.name == solverCVC5.name {
					to = 15 * time.Second
				}
				atts[i] = runOne(sp, dir, base, o.Query, to)
			}(i, sp)
		}
		wg.Wait()
		res.Attempts = atts
		anyUnsat, anySat := false, false
		for _, a := range atts {
			res.Secs += a.Secs
			if a.Verdict == "unsat" && !anyUnsat {
				anyUnsat = true
				res.Solver = a.Solver
			}
			if a.Verdict == "sat" {
				anySat = true
			}
		}
		if !anySat && !anyUnsat && !o.Sample && !o.MustFail {
			// neither z3 decided it: cvc5 gets its turn (it is the only back end that discharges some quantified goals)
			for _, sp := range []solverSpec{solverCVC5, solverZ3NewAuto, solverZ3OldAuto} {
				b := runOne(sp, dir, base, o.Query, timeout)
				res.Attempts = append(res.Attempts, b)
				res.Secs += b.Secs
				if b.Verdict == "unsat" {
					anyUnsat = true
					res.Solver = b.Solver
					break
				}
				if b.Verdict == "sat" {
					anySat = true
				}
			}
		}
		switch {
		case anySat:
			res.Verdict = "sat"
		case anyUnsat:
			res.Verdict = "unsat"
		default:
			res.Verdict = atts[0].Verdict
		}
		return res
	}
	// quick tier: a short first attempt (almost every obligation is decided in well under a second), then the two other
	// back ends, then the first back end again with the full time limit if it had merely run out of time
	short := timeout
	if short > 2*time.Second {
		short = 2 * time.Second
	}
	a := runOne(solverZ3New, dir, base, o.Query, short)
	res.Attempts = append(res.Attempts, a)
	res.Secs = a.Secs
	res.Verdict, res.Solver = a.Verdict, a.Solver
	if a.Verdict == "unsat" {
		return res
	}
	if strings.HasSuffix(o.Clause, ".exhaustive") {
		return res // decided on the control-flow graph: the query is the constant verdict
	}
	if o.MustFail {
		// a canary (an assertion that must not be provable): the default configurations of both z3 builds look for an
		// inconsistency among the hypotheses that pure e-matching would not stumble upon (this is how the contradictory
		// str1 axiom was found, DESIGN 9.13)
		for _, sp := range []solverSpec{solverZ3OldAuto, solverZ3NewAuto} {
			b := runOne(sp, dir, base, o.Query, short)
			res.Attempts = append(res.Attempts, b)
			res.Secs += b.Secs
			if b.Verdict == "unsat" {
				res.Verdict, res.Solver = "unsat", b.Solver
				return res
			}
		}
		return res
	}
	for _, sp := range []solverSpec{solverZ3NewAuto, solverZ3Old, solverZ3OldAuto, solverCVC5} {
		to := timeout / 2
		if (sp.name == solverZ3NewAuto.name || sp.name == solverZ3OldAuto.name) && to > 2*time.Second {
			to = 2 * time.Second // the default configurations answer within a fraction of a second when they answer at all
		}
		if sp.name == solverCVC5.name && quickGiveUps(res.Attempts) {
			// every z3 configuration gave up at once ("unknown": e-matching found no further instance): the time they
			// did not use goes to cvc5, which decides some quantifier alternations the others do not
			to = timeout
		}
		b := runOne(sp, dir, base, o.Query, to)
		res.Attempts = append(res.Attempts, b)
		res.Secs += b.Secs
		if b.Verdict == "unsat" {
			res.Verdict, res.Solver = "unsat", b.Solver
			return res
		}
		if b.Verdict == "sat" {
			res.Verdict = "sat"
		}
	}
	if a.Verdict == "timeout" && short < timeout && res.Verdict != "sat" {
		b := runOne(solverZ3New, dir, base, o.Query, timeout)
		res.Attempts = append(res.Attempts, b)
		res.Secs += b.Secs
		if b.Verdict == "unsat" || b.Verdict == "sat" {
			res.Verdict, res.Solver = b.Verdict, b.Solver
		}
	}
	return res
}

// quickGiveUps: the e-matching configurations (the first attempt of each z3 build) answered "unknown" rather than
// running out of time.
func quickGiveUps(atts []Attempt) bool {
	n := 0
	for _, a := range atts {
		if a.Solver == solverZ3New.name || a.Solver == solverZ3Old.name {
			if a.Verdict != "unknown" {
				return false
			}
			n++
		}
	}
	return n >= 2
}

// pool runs obligations as they are produced.
type pool struct {
	in      chan Obligation
	wg      sync.WaitGroup
	mu      sync.Mutex
	results []Result
	dir     string
	timeout time.Duration
	retry   func(o Obligation) bool // nil: every undecided obligation that ran out of time gets the second attempt
}

func newPool(dir string, workers int, thorough bool, timeout time.Duration) *pool {
	p := &pool{in: make(chan Obligation, 64), dir: dir, timeout: timeout}
	for i := 0; i < workers; i++ {
		p.wg.Add(1)
		go func() {
			defer p.wg.Done()
			for o := range p.in {
				r := discharge(o, dir, thorough, timeout)
				if !retryable(r) || (p.retry != nil && !p.retry(r.Obl)) {
					r.Obl.Query = "" // keep memory bounded; failed queries stay on disk
				}
				p.mu.Lock()
				p.results = append(p.results, r)
				p.mu.Unlock()
			}
		}()
	}
	return p
}

// retryable: undecided, and at least one back end ran out of time rather than giving up. On a loaded machine (several
// checks at once) a query that normally takes a second can exceed its limit; such obligations get a second, unhurried
// attempt after the pool has drained, so that machine load alone never turns into an alarm.
func retryable(r Result) bool {
	if r.Verdict == "unsat" || r.Verdict == "sat" || r.Obl.MustFail || r.Obl.Query == "" {
		return false
	}
	for _, a := range r.Attempts {
		if a.Verdict == "timeout" {
			return true
		}
	}
	return false
}

func (p *pool) wait() []Result {
	close(p.in)
	p.wg.Wait()
	var idx []int
	for i, r := range p.results {
		if retryable(r) {
			idx = append(idx, i)
		}
	}
	if len(idx) > 0 {
		sem := make(chan struct{}, 2)
		var wg sync.WaitGroup
		for _, i := range idx {
			wg.Add(1)
			sem <- struct{}{}
			go func(i int) {
				defer wg.Done()
				defer func() { <-sem }()
				r := &p.results[i]
				base := fileBase(r.Obl.Name)
				timedOut := map[string]bool{}
				for _, a := range r.Attempts {
					if a.Verdict == "timeout" {
						timedOut[a.Solver] = true
					}
				}
				// cvc5 first: the obligations that need the second attempt are mostly the quantifier-heavy ones it decides
				for _, sp := range []solverSpec{solverCVC5, solverZ3New, solverZ3Old, solverZ3NewAuto, solverZ3OldAuto} {
					if !timedOut[sp.name] {
						continue
					}
					b := runOne(sp, p.dir, base, r.Obl.Query, 3*p.timeout)
					b.Out = "retry after the pool drained: " + b.Out
					r.Attempts = append(r.Attempts, b)
					r.Secs += b.Secs
					if b.Verdict == "unsat" || b.Verdict == "sat" {
						r.Verdict, r.Solver = b.Verdict, b.Solver
						break
					}
				}
				r.Obl.Query = ""
			}(i)
		}
		wg.Wait()
	}
	return p.results
}
