package main

// Zero-annotation safety sweep (C06, "every request is total"): every function of the handler packages that has no
// contract of its own (or whose contract is only trusted, i.e. whose body no check verifies) is run through the generator
// with an empty contract: no precondition beyond "pointer parameters are non-nil", every location writable, loops cut
// with the built-in range facts only. The safety obligations (index, slice, nil dereference, nil-map write, failed type
// assertion, division, negative Repeat, narrowing conversion) that are discharged on the pinned tree are recorded in
// /verif/sweep_baseline.json. A run reports an obligation of the baseline that is generated again under the same name
// and is no longer discharged: a guard in front of an unchanged expression was removed or weakened. Obligations that
// are not in the baseline (never discharged without annotations, or new expressions) are counted, not reported: an
// undischarged obligation without a contract is undecided, not a violation.

import (
	"encoding/json"
	"fmt"
	"os"
	"path/filepath"
	"runtime"
	"sort"
	"strings"
	"time"
)

type sweepOutcome struct {
	violLines  []string
	violations int
	evidence   map[string]any
}

var sweepPkgs = map[string]bool{"server": true, "analyzer": true, "formatter": true, "workspace": true, "include": true, "lsputil": true, "parser": true}

func runSweep(repo *Repo, opt *checkOpts, update bool) sweepOutcome {
	t0 := time.Now()
	basePath := filepath.Join(opt.verif, "sweep_baseline.json")
	baseline := map[string]bool{}
	if data, err := os.ReadFile(basePath); err == nil {
		var names []string
		if json.Unmarshal(data, &names) == nil {
			for _, n := range names {
				baseline[n] = true
			}
		}
	}
	var keys []string
	for k, fn := range repo.funcs {
		if fn.Pkg == nil || !sweepPkgs[fn.Pkg.Pkg.Name()] || fn.Blocks == nil || fn.Synthetic != "" || fn.Parent() != nil {
			continue
		}
		if strings.HasSuffix(repo.prog.Fset.Position(fn.Pos()).Filename, "_test.go") || strings.HasSuffix(repo.prog.Fset.Position(fn.Pos()).Filename, "zz_contracts_verif.go") {
			continue
		}
		if fc := repo.cs.Funcs[k]; fc != nil && !fc.Trusted {
			continue // under contract (or a transparent pure leaf): verified by the checks of its properties
		}
		keys = append(keys, k)
	}
	sort.Strings(keys)
	outDir, err := os.MkdirTemp("", "govc-sweep-")
	if err != nil {
		return sweepOutcome{evidence: map[string]any{"error": err.Error()}}
	}
	defer os.RemoveAll(outDir)
	pl := newPool(outDir, runtime.NumCPU(), false, 4*time.Second)
	pl.retry = func(o Obligation) bool { return baseline[strings.TrimPrefix(o.Clause, "sweep:")] || baseline[o.Clause] } // only a recorded clause can regress
	genFailed := 0
	nFuncs := 0
	for _, k := range keys {
		fn := repo.funcs[k]
		var c *Ctx
		failed := false
		func() {
			defer func() {
				if r := recover(); r != nil {
					failed = true
					if os.Getenv("GOVC_SWEEP_WHY") != "" {
						fmt.Fprintf(os.Stderr, "sweep: %s: %v\n", k, r)
					}
				}
			}()
			fc := &FuncContract{Name: funcKey0(fn), Pkg: fn.Pkg.Pkg.Name(), Auto: true, LoopInv: map[int][]Clause{}, LoopDec: map[int]string{}, LoopMods: map[int][]string{}}
			c = repo.newCtx(fc.Pkg)
			c.refuted = map[string]bool{}
			c.property = "C06"
			c.sweep = true
			verify(c, fn, fc, false)
		}()
		if failed || c == nil {
			genFailed++
			continue
		}
		nFuncs++
		for _, o := range c.obls {
			if o.MustFail || !strings.Contains(o.Clause, "#safety.") || len(o.Query) > 1<<20 {
				continue
			}
			o.Name = "sweep:" + o.Name
			o.Clause = "sweep:" + o.Clause
			pl.in <- o
		}
		c.obls = nil
	}
	results := pl.wait()
	// a clause (function + guarded expression) is discharged iff every instance is
	type agg struct {
		n, ok int
		worst *Result
	}
	aggs := map[string]*agg{}
	for i := range results {
		r := &results[i]
		a := aggs[r.Obl.Clause]
		if a == nil {
			a = &agg{}
			aggs[r.Obl.Clause] = a
		}
		a.n++
		if r.Verdict == "unsat" {
			a.ok++
		} else if a.worst == nil {
			a.worst = r
		}
	}
	var names []string
	for cl := range aggs {
		names = append(names, cl)
	}
	sort.Strings(names)
	out := sweepOutcome{}
	nDis, nBaseChecked := 0, 0
	var regress []string
	var nowOK []string
	for _, cl := range names {
		a := aggs[cl]
		if a.ok == a.n {
			nDis++
			nowOK = append(nowOK, cl)
		}
		if baseline[cl] {
			nBaseChecked++
			if a.ok != a.n {
				regress = append(regress, cl)
				w := a.worst
				text := fmt.Sprintf("zero-annotation safety sweep: %s was discharged without any annotation on the pinned tree and is not discharged now (%s at %s): a guard in front of this expression was removed or weakened, or the values reaching it changed", cl, w.Verdict, w.Obl.Pos)
				qpath := ""
				if w != nil {
					dir := filepath.Join(opt.verif, "replays", opt.property)
					os.MkdirAll(dir, 0o755)
					qpath = filepath.Join(dir, fileBase(cl)+".smt2")
					os.WriteFile(qpath, []byte(w.Obl.Query), 0o644)
				}
				path := writeNote(opt, fileBase(cl), text+"\nquery: "+qpath)
				fmt.Printf("  FAILED %s (%d/%d) %s at %s\n", cl, a.ok, a.n, w.Verdict, w.Obl.Pos)
				out.violLines = append(out.violLines, fmt.Sprintf("VIOLATION property=%s replay=%s no-failing-input-found", opt.property, path))
				out.violations++
			}
		}
	}
	if lp := os.Getenv("GOVC_SWEEP_LIST"); lp != "" {
		// triage aid: the clauses that do not discharge, with the verdicts and (kept) queries
		var sb strings.Builder
		os.MkdirAll(lp, 0o755)
		for _, cl := range names {
			a := aggs[cl]
			if a.ok == a.n || a.worst == nil {
				continue
			}
			w := a.worst
			var vs []string
			for _, at := range w.Attempts {
				vs = append(vs, at.Solver+"="+at.Verdict)
			}
			fmt.Fprintf(&sb, "%s\t%d/%d\t%s\t%s\t%s\n", cl, a.ok, a.n, w.Verdict, w.Obl.Pos, strings.Join(vs, ","))
		}
		os.WriteFile(filepath.Join(lp, "undischarged.tsv"), []byte(sb.String()), 0o644)
	}
	if update {
		data, _ := json.MarshalIndent(nowOK, "", " ")
		os.WriteFile(basePath, append(data, '\n'), 0o644)
	}
	gone := 0
	for cl := range baseline {
		if _, ok := aggs[cl]; !ok {
			gone++
		}
	}
	out.evidence = map[string]any{
		"what":                                    "zero-annotation safety sweep of the functions without a verified contract (see govc/sweep.go): panics only; not part of the proof claim",
		"functions_swept":                         nFuncs,
		"functions_generator_failed":              genFailed,
		"safety_clauses_generated":                len(names),
		"safety_clauses_discharged":               nDis,
		"baseline_clauses":                        len(baseline),
		"baseline_clauses_rechecked":              nBaseChecked,
		"baseline_clauses_not_generated_any_more": gone,
		"regressions":                             regress,
		"wall_s":                                  round3(time.Since(t0).Seconds()),
	}
	return out
}
