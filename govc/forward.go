package main

import (
	"fmt"

	"golang.org/x/tools/go/ssa"
)

// checkForward decides a "forward" contract on the SSA form: the function consists of one block that loads a field of
// its receiver (the object it hands over to), calls the target once with its own parameters in order and unchanged, and
// returns exactly the results of that call. Nothing else may happen (no store to anything but the parameter spill
// cells of the naive SSA form, no other call, no branch). Returns "" when the body has that shape, else the reason.
func checkForward(fn *ssa.Function, target string) string {
	if fn == nil {
		return "function not found"
	}
	if len(fn.Blocks) != 1 {
		return fmt.Sprintf("%d basic blocks (a branch or a loop)", len(fn.Blocks))
	}
	spill := map[*ssa.Alloc]ssa.Value{} // naive form: parameters are spilled to local cells once
	var resolve func(v ssa.Value) ssa.Value
	resolve = func(v ssa.Value) ssa.Value {
		if u, ok := v.(*ssa.UnOp); ok {
			if a, ok := u.X.(*ssa.Alloc); ok {
				if s, ok := spill[a]; ok {
					return resolve(s)
				}
			}
		}
		return v
	}
	var call *ssa.Call
	for _, ins := range fn.Blocks[0].Instrs {
		switch x := ins.(type) {
		case *ssa.Alloc:
			if x.Heap {
				return "allocates"
			}
		case *ssa.Store:
			// naive SSA form: parameters, the defer stack and the results live in local cells, each written once
			a, ok := x.Addr.(*ssa.Alloc)
			if !ok || a.Heap {
				return "stores to memory: " + x.String()
			}
			if _, dup := spill[a]; dup {
				return "writes a local twice: " + x.String()
			}
			spill[a] = x.Val
		case *ssa.FieldAddr, *ssa.UnOp, *ssa.Extract, *ssa.DebugRef, *ssa.RunDefers:
		case *ssa.Call:
			if b, ok := x.Common().Value.(*ssa.Builtin); ok && b.Name() == "ssa:deferstack" {
				continue // bookkeeping of the naive form; there is no defer (any other instruction kind is refused)
			}
			if call != nil {
				return "more than one call"
			}
			call = x
		case *ssa.Return:
			if call == nil {
				return "returns without calling the target"
			}
			if len(x.Results) == 1 && call.Common().Signature().Results().Len() == 1 {
				if resolve(x.Results[0]) != ssa.Value(call) {
					return "returns something other than the target's result"
				}
			} else {
				if len(x.Results) != call.Common().Signature().Results().Len() {
					return "returns a different number of results"
				}
				for i, r := range x.Results {
					e, ok := resolve(r).(*ssa.Extract)
					if !ok || e.Tuple != ssa.Value(call) || e.Index != i {
						return fmt.Sprintf("result %d is not result %d of the target", i, i)
					}
				}
			}
		default:
			return "unexpected instruction: " + ins.String()
		}
	}
	if call == nil {
		return "no call"
	}
	cc := call.Common()
	callee := cc.StaticCallee()
	if callee == nil {
		return "dynamic call"
	}
	if funcKey(callee) != target {
		return "calls " + funcKey(callee)
	}
	// arguments: receiver = a field of this function's receiver, then the remaining parameters in order
	params := fn.Params
	if len(cc.Args) != len(params) {
		return fmt.Sprintf("passes %d arguments for %d parameters", len(cc.Args), len(params))
	}
	recv := resolve(cc.Args[0])
	ld, ok := recv.(*ssa.UnOp)
	if !ok {
		return "the receiver of the call is not a field of the dispatcher"
	}
	fa, ok := ld.X.(*ssa.FieldAddr)
	if !ok || resolve(fa.X) != ssa.Value(params[0]) {
		return "the receiver of the call is not a field of the dispatcher"
	}
	for i := 1; i < len(params); i++ {
		if resolve(cc.Args[i]) != ssa.Value(params[i]) {
			return fmt.Sprintf("argument %d is not parameter %d unchanged", i, i)
		}
	}
	return ""
}

// checkRangeSorted decides a "rangesorted" contract on the SSA form: the function calls (*sync.Map).Range exactly once,
// with a function literal that does nothing but append to the named captured variable; the first use of that variable
// after the call is the argument of a sort by a total order on the elements; nothing else in the function ranges over a
// sync.Map. Returns "" or the reason.
func checkRangeSorted(fn *ssa.Function, varName string) string {
	if fn == nil {
		return "function not found"
	}
	var cell *ssa.Alloc
	for _, b := range fn.Blocks {
		for _, in := range b.Instrs {
			if a, ok := in.(*ssa.Alloc); ok && a.Comment == varName {
				cell = a
			}
		}
	}
	if cell == nil {
		return "no local named " + varName
	}
	var rng *ssa.Call
	for _, b := range fn.Blocks {
		for _, in := range b.Instrs {
			c, ok := in.(*ssa.Call)
			if !ok || c.Call.StaticCallee() == nil {
				continue
			}
			if c.Call.StaticCallee().String() == "(*sync.Map).Range" {
				if rng != nil {
					return "more than one sync.Map.Range"
				}
				rng = c
			}
		}
	}
	if rng == nil {
		return "no sync.Map.Range call"
	}
	mc, ok := rng.Call.Args[1].(*ssa.MakeClosure)
	if !ok {
		return "the Range callback is not a function literal"
	}
	// the literal: captures the variable, and every store in it goes to that variable
	cf := mc.Fn.(*ssa.Function)
	captured := false
	for i, fv := range cf.FreeVars {
		if mc.Bindings[i] == ssa.Value(cell) {
			captured = true
			for _, b := range cf.Blocks {
				for _, in := range b.Instrs {
					if st, ok := in.(*ssa.Store); ok {
						if al, isLocal := st.Addr.(*ssa.Alloc); isLocal && !al.Heap {
							continue // spill cells of the naive form
						}
						if ia, isIdx := st.Addr.(*ssa.IndexAddr); isIdx {
							if al, ok := ia.X.(*ssa.Alloc); ok && al.Comment == "varargs" {
								continue // the argument array of append(xs, v)
							}
						}
						if st.Addr != ssa.Value(fv) {
							return "the callback writes something other than " + varName + ": " + st.String()
						}
					}
				}
			}
		} else if _, isAlloc := mc.Bindings[i].(*ssa.Alloc); isAlloc {
			return "the callback captures another variable: " + fv.Name()
		}
	}
	if !captured {
		return "the callback does not capture " + varName
	}
	// first use after the Range call, in the same block (the handlers call Range at top level)
	blk := rng.Block()
	after := false
	for _, in := range blk.Instrs {
		if in == ssa.Instruction(rng) {
			after = true
			continue
		}
		if !after {
			continue
		}
		if u, ok := in.(*ssa.UnOp); ok && u.X == ssa.Value(cell) {
			refs := u.Referrers()
			if refs == nil || len(*refs) == 0 {
				return "the value read after Range is unused"
			}
			for _, r := range *refs {
				call, isCall := r.(*ssa.Call)
				if !isCall || call.Call.StaticCallee() == nil || !totalOrderSort(call.Call.StaticCallee().String()) {
					return "the first use of " + varName + " after Range is not a sort by a total order on the elements (" + r.String() + ")"
				}
			}
			return ""
		}
		if st, ok := in.(*ssa.Store); ok && st.Addr == ssa.Value(cell) {
			return varName + " is overwritten after Range"
		}
	}
	return varName + " is not used in the block of the Range call"
}
