package main

import (
	"bytes"
	"go/ast"
	"go/printer"
	"go/token"
	"strings"

	"golang.org/x/tools/go/ast/astutil"
)

// astFiles: file name -> syntax tree of every loaded repository file (filled by the loader).
var astFiles = map[string]*ast.File{}

var srcCache = map[token.Pos]map[string]string{}

// srcAt returns the source text of the innermost expression of the wanted kind that encloses pos, with white
// space normalised. Obligation names are built from it, so that they do not move when unrelated lines are edited.
func (c *Ctx) srcAt(pos token.Pos, want string) string {
	if !pos.IsValid() {
		return "?"
	}
	if m, ok := srcCache[pos]; ok {
		if s, ok := m[want]; ok {
			return s
		}
	}
	fset := c.prog.Fset
	tf := fset.File(pos)
	if tf == nil {
		return "?"
	}
	f := astFiles[tf.Name()]
	if f == nil {
		return "?"
	}
	path, _ := astutil.PathEnclosingInterval(f, pos, pos)
	var node ast.Node
	for _, n := range path {
		switch x := n.(type) {
		case *ast.IndexExpr:
			if want == "index" {
				node = x
			}
		case *ast.SliceExpr:
			if want == "slice" || want == "index" {
				node = x
			}
		case *ast.SelectorExpr:
			if want == "sel" {
				node = x
			}
		case *ast.StarExpr:
			if want == "sel" {
				node = x
			}
		case *ast.BinaryExpr:
			if want == "binary" {
				node = x
			}
		case *ast.AssignStmt:
			if want == "binary" && (x.Tok == token.QUO_ASSIGN || x.Tok == token.REM_ASSIGN) {
				node = x
			}
		case *ast.CallExpr:
			if want == "call" {
				node = x
			}
		case *ast.TypeAssertExpr:
			if want == "typeassert" {
				node = x
			}
		case *ast.KeyValueExpr:
			if want == "index" {
				node = x
			}
		}
		if node != nil {
			break
		}
	}
	if node == nil && len(path) > 0 {
		// fall back to the innermost expression or statement
		for _, n := range path {
			if _, ok := n.(ast.Expr); ok {
				node = n
				break
			}
		}
		if node == nil {
			node = path[0]
		}
	}
	s := "?"
	if node != nil {
		var b bytes.Buffer
		printer.Fprint(&b, fset, node)
		s = strings.Join(strings.Fields(b.String()), " ")
		if len(s) > 90 {
			s = s[:90] + "…"
		}
	}
	if srcCache[pos] == nil {
		srcCache[pos] = map[string]string{}
	}
	srcCache[pos][want] = s
	return s
}
