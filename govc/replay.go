package main

// Replay of a failed obligation on the real code (DESIGN.md 3.7, "small-scope search"): the contract of the function
// that owns the failed obligation is compiled to run-time assertions (requires clauses filter the inputs, every ensures
// clause that can be rendered as a Go expression is checked, panics and non-termination are caught), a small exhaustive
// input domain is generated from the parameter types, and the test is injected into the package with `go test -overlay`
// (nothing is written into /repo).
//
// Supported signatures: parameters of basic type (string / integer / bool) or small structs of those; receivers
// *parser.Lexer (built from an input string and an offset, line and column computed from the text so that the
// precondition Pos16 can hold) and *lsputil.PositionMapper (built by NewPositionMapper). Anything else: the violation
// is reported with "no-failing-input-found".
//
// A confirmed replay is a real execution of the real code that panics, hangs, or breaks a stated ensures clause on an
// input satisfying the stated requires clauses; it is therefore never a false alarm of the verifier. A replay that finds
// nothing proves nothing: the violation stands on the failed obligation.

import (
	"fmt"
	"go/ast"
	"go/parser"
	"go/printer"
	"go/token"
	"go/types"
	"os"
	"path/filepath"
	"regexp"
	"sort"
	"strconv"
	"strings"
	"time"

	"go/constant"

	"golang.org/x/tools/go/ssa"
)

const replaySpecLib = `
func spec_width(s string, i int) int { if i < 0 || i >= len(s) { return 1 }; _, w := utf8.DecodeRuneInString(s[i:]); return w }
func spec_rune(s string, i int) int  { if i < 0 || i >= len(s) { return 65533 }; r, _ := utf8.DecodeRuneInString(s[i:]); return int(r) }
func spec_step(s string, i int) int  { return i + spec_width(s, i) }
func spec_u16w(r int) int { if r >= 0x10000 { return 2 }; return 1 }
func spec_runelen(r int) int { n := utf8.RuneLen(rune(r)); if n < 0 { return 3 }; return n }
func spec_skipsp(s string, i int) int { for i >= 0 && i < len(s) && s[i] == ' ' { i++ }; return i }
func spec_bnd(s string, i int) bool { j := 0; for j < i && j < len(s) { j = spec_step(s, j) }; return j == i }
func spec_u16(s string, i int) int { n, j := 0, 0; for j < i && j < len(s) { n += spec_u16w(spec_rune(s, j)); j = spec_step(s, j) }; return n }
func spec_lsof(s string, i int) int { ls, j := 0, 0; for j < i && j < len(s) { nx := spec_step(s, j); if s[j] == '\n' { ls = nx }; j = nx }; return ls }
func spec_nlb(s string, i int) int { n, j := 0, 0; for j < i && j < len(s) { if s[j] == '\n' { n++ }; j = spec_step(s, j) }; return n }
func spec_vld(s string) bool { return utf8.ValidString(s) }
func spec_tolower(s string) string { return strings.ToLower(s) }
func spec_trimspace(s string) string { return strings.TrimSpace(s) }
func spec_hasprefix(s, p string) bool { return strings.HasPrefix(s, p) }
func spec_sconcat(a, b string) string { return a + b }
func spec_substr(s string, a, b int) string { if a < 0 || b > len(s) || a > b { return "" }; return s[a:b] }
func spec_rcount(s string) int { return utf8.RuneCountInString(s) }
func spec_runeat(s string, k int) int { i := 0; for _, r := range s { if i == k { return int(r) }; i++ }; return -1 }
func spec_sindex(s, p string) int { return strings.Index(s, p) }
func spec_unicodeIsLetter(r int) bool { return unicode.IsLetter(rune(r)) }
func spec_NL(s string) int { return strings.Count(s, "\n") + 1 }
func spec_LS(s string, k int) int { if k <= 0 { return 0 }; i := 0; for n := 0; n < k; n++ { j := strings.IndexByte(s[i:], '\n'); if j < 0 { return len(s) }; i += j + 1 }; return i }
func spec_LE(s string, k int) int { i := spec_LS(s, k); j := strings.IndexByte(s[i:], '\n'); if j < 0 { return len(s) }; return i + j }
func spec_safeB(f func() bool, dflt bool) (r bool) { defer func() { if recover() != nil { r = dflt } }(); return f() }
`

// expandPredsText inlines pred calls textually (arguments substituted by word-boundary replacement).
func expandPredsText(cs *Contracts, scope, src string) string {
	var keys []string
	for k := range cs.Preds {
		keys = append(keys, k)
	}
	sort.Strings(keys)
	for iter := 0; iter < 40; iter++ {
		changed := false
		for _, key := range keys {
			name := key[strings.Index(key, ".")+1:]
			p, _ := cs.lookupPred(scope, name)
			if p == nil {
				continue
			}
			re := regexp.MustCompile(`(^|[^A-Za-z0-9_.])` + regexp.QuoteMeta(name) + `\(`)
			loc := re.FindStringIndex(src)
			if loc == nil {
				continue
			}
			start := loc[1] - len(name) - 1
			depth, j := 0, loc[1]-1
			for ; j < len(src); j++ {
				if src[j] == '(' {
					depth++
				} else if src[j] == ')' {
					depth--
					if depth == 0 {
						break
					}
				}
			}
			if j >= len(src) {
				continue
			}
			args := splitTop(src[loc[1]:j], ",")
			body := p.Body
			for i, pn := range p.Params {
				if i < len(args) {
					body = regexp.MustCompile(`(^|[^A-Za-z0-9_.])`+regexp.QuoteMeta(pn)+`\b`).ReplaceAllString(body, "${1}("+strings.TrimSpace(args[i])+")")
				}
			}
			src = src[:start] + "(" + body + ")" + src[j+1:]
			changed = true
			break
		}
		if !changed {
			break
		}
	}
	return src
}

type goRender struct {
	specdefs map[string]*SpecDef // renderable specdefs
	strNames map[string]bool     // identifiers known to be strings (for ite typing)
	olds     *[]string
	noWrap   bool // second rendering variant: x[i] is a slice element (not a byte of a string compared as int)
	usedIdx  bool // the clause contains an index expression (so the two variants differ)
}

func exprString(e ast.Expr) string {
	var b strings.Builder
	printer.Fprint(&b, token.NewFileSet(), e)
	return b.String()
}

// guess the type of a contract expression: "S" string, "B" bool, "I" int
func (g *goRender) guess(e ast.Expr) string {
	switch x := e.(type) {
	case *ast.ParenExpr:
		return g.guess(x.X)
	case *ast.BasicLit:
		if x.Kind == token.STRING {
			return "S"
		}
		return "I"
	case *ast.Ident:
		if x.Name == "true" || x.Name == "false" {
			return "B"
		}
		if g.strNames[x.Name] {
			return "S"
		}
		return "I"
	case *ast.BinaryExpr:
		switch x.Op {
		case token.LAND, token.LOR, token.EQL, token.NEQ, token.LSS, token.LEQ, token.GTR, token.GEQ:
			return "B"
		}
		return g.guess(x.X)
	case *ast.UnaryExpr:
		if x.Op == token.NOT {
			return "B"
		}
		return "I"
	case *ast.CallExpr:
		if id, ok := x.Fun.(*ast.Ident); ok {
			name := strings.TrimPrefix(id.Name, "spec_")
			if name == "ite" {
				return g.guess(x.Args[1])
			}
			if name == "concat" {
				return "S"
			}
			if sd, ok := g.specdefs[name]; ok {
				return map[string]string{"int": "I", "string": "S", "bool": "B"}[sd.Ret]
			}
			if t, ok := specFuncs[name]; ok {
				switch t {
				case types.Typ[types.String]:
					return "S"
				case types.Typ[types.Bool]:
					return "B"
				}
			}
		}
		return "I"
	}
	return "I"
}

// render rewrites a parsed contract expression into Go (panics on unsupported constructs).
func (g *goRender) render(n ast.Expr) ast.Expr {
	switch x := n.(type) {
	case *ast.CallExpr:
		id, ok := x.Fun.(*ast.Ident)
		if !ok {
			panic("unsupported call")
		}
		switch id.Name {
		case "old":
			if g.olds == nil {
				panic("old() outside a postcondition")
			}
			*g.olds = append(*g.olds, exprString(g.render(x.Args[0])))
			return ast.NewIdent(fmt.Sprintf("old%d", len(*g.olds)-1))
		case "len":
			x.Args[0] = g.render(x.Args[0])
			return x
		case "ite":
			ty := map[string]string{"I": "int", "S": "string", "B": "bool"}[g.guess(x)]
			c, a, b := g.render(x.Args[0]), g.render(x.Args[1]), g.render(x.Args[2])
			ex, err := parser.ParseExpr(fmt.Sprintf("func() %s { if %s { return %s }; return %s }()", ty, exprString(c), exprString(a), exprString(b)))
			if err != nil {
				panic(err)
			}
			return ex
		case "concat":
			id.Name = "spec_sconcat"
		default:
			if _, isSpec := specFuncs[id.Name]; isSpec || g.specdefs[id.Name] != nil {
				id.Name = "spec_" + id.Name
			} else {
				panic("unsupported function " + id.Name)
			}
		}
		for i := range x.Args {
			x.Args[i] = g.render(x.Args[i])
		}
		return x
	case *ast.BinaryExpr:
		x.X, x.Y = g.render(x.X), g.render(x.Y)
		return x
	case *ast.UnaryExpr:
		x.X = g.render(x.X)
		return x
	case *ast.ParenExpr:
		x.X = g.render(x.X)
		return x
	case *ast.SelectorExpr:
		x.X = g.render(x.X)
		return x
	case *ast.IndexExpr:
		// string indexing yields a byte, compared as int; slice indexing yields the element (variant noWrap)
		x.X, x.Index = g.render(x.X), g.render(x.Index)
		g.usedIdx = true
		if g.noWrap {
			return x
		}
		return &ast.CallExpr{Fun: ast.NewIdent("int"), Args: []ast.Expr{x}}
	case *ast.BasicLit:
		if x.Kind == token.CHAR {
			return &ast.CallExpr{Fun: ast.NewIdent("int"), Args: []ast.Expr{x}}
		}
		if x.Kind == token.FLOAT {
			panic("real literal")
		}
		return x
	case *ast.Ident:
		return x
	}
	panic(fmt.Sprintf("unsupported expression %T", n))
}

// clause compiles a (pred-expanded) boolean clause: the logical connectives ==> and <==> are handled on the text, the
// atoms by the Go parser.
func (g *goRender) clause(src string) string {
	src = strings.TrimSpace(src)
	if strings.HasPrefix(src, "forall ") {
		// integer-quantified clauses are checked on a small range (the antecedent bounds the variable; an evaluation that
		// panics - an index outside the data - counts as that instance holding)
		head, body, ok := strings.Cut(src[len("forall "):], "::")
		if !ok {
			panic("forall")
		}
		var vars []string
		for _, v := range strings.Split(head, ",") {
			f := strings.Fields(v)
			if len(f) == 2 && f[1] != "int" || len(f) == 0 || len(f) > 2 {
				panic("only int quantifiers are rendered")
			}
			vars = append(vars, f[0])
		}
		body = strings.TrimSpace(body)
		for strings.HasPrefix(body, "{") {
			i := strings.Index(body, "}")
			body = strings.TrimSpace(body[i+1:])
		}
		inner := g.clause(body)
		out := fmt.Sprintf("if !spec_safeB(func() bool { return %s }, true) { return false }", inner)
		for i := len(vars) - 1; i >= 0; i-- {
			out = fmt.Sprintf("for %s := -1; %s <= 40; %s++ { %s }", vars[i], vars[i], vars[i], out)
		}
		return fmt.Sprintf("func() bool { %s; return true }()", out)
	}
	if iff := splitTop(src, "<==>"); len(iff) == 2 {
		return fmt.Sprintf("((%s) == (%s))", g.clause(iff[0]), g.clause(iff[1]))
	}
	if imp := splitTop(src, "==>"); len(imp) > 1 {
		return fmt.Sprintf("(!(%s) || (%s))", g.clause(imp[0]), g.clause(strings.Join(imp[1:], "==>")))
	}
	if dis := splitTop(src, "||"); len(dis) > 1 {
		var ps []string
		for _, p := range dis {
			ps = append(ps, "("+g.clause(p)+")")
		}
		return strings.Join(ps, " || ")
	}
	if conj := splitTop(src, "&&"); len(conj) > 1 {
		var ps []string
		for _, p := range conj {
			ps = append(ps, "("+g.clause(p)+")")
		}
		return strings.Join(ps, " && ")
	}
	if fullyParenthesised(src) {
		return "(" + g.clause(src[1:len(src)-1]) + ")"
	}
	if strings.HasPrefix(src, "!") && fullyParenthesised(strings.TrimSpace(src[1:])) {
		return "!(" + g.clause(strings.TrimSpace(src[1:])) + ")"
	}
	e, err := parser.ParseExpr(src)
	if err != nil {
		panic(err)
	}
	return exprString(g.render(e))
}

func (g *goRender) tryClause(cs *Contracts, scope, src string, olds *[]string) (out string, ok bool) {
	defer func() {
		if recover() != nil {
			ok = false
		}
	}()
	src = expandPredsText(cs, scope, strings.TrimSpace(src))
	for _, bad := range []string{"exists ", "fresh(", "has(", "typeis(", "seq(", "allocated(", "smhas(", "smget(", "box(", "iterseen", "atloop"} {
		if strings.Contains(src, bad) {
			return "", false
		}
	}
	g.olds = olds
	return g.clause(src), true
}

func relType(t types.Type, pkg *types.Package) string {
	return types.TypeString(t, func(pk *types.Package) string {
		if pk == pkg {
			return ""
		}
		return pk.Name()
	})
}

// argument generators ----------------------------------------------------------------------------------------------

type argGen struct {
	loops  []string // nested "for" headers (each opens one brace)
	expr   string   // Go expression of the argument inside the loops
	show   []string // variables to print
	nStr   int
	combos int // number of values enumerated for the non-string parts
}

// genArg builds the enumeration of a parameter of type t named name. Integer leaves are enumerated as int variables
// (so that contract clauses compare ints) and converted at the call.
func genArg(name string, t types.Type, pkg *types.Package, depth int) (*argGen, bool) {
	switch u := t.Underlying().(type) {
	case *types.Basic:
		switch {
		case u.Info()&types.IsString != 0:
			g := &argGen{loops: []string{fmt.Sprintf("for _, %s := range strs {", name)}, expr: name, show: []string{name}, nStr: 1, combos: 1}
			if relType(t, pkg) != "string" {
				g.loops[0] = fmt.Sprintf("for _, %s_s := range strs { %s := %s(%s_s)", name, name, relType(t, pkg), name)
			}
			return g, true
		case u.Info()&types.IsBoolean != 0:
			return &argGen{loops: []string{fmt.Sprintf("for _, %s := range []bool{false, true} {", name)}, expr: name, show: []string{name}, combos: 2}, true
		case u.Info()&types.IsInteger != 0:
			dom := "[]int{-1, 0, 1, 2, 3, 5}"
			if u.Info()&types.IsUnsigned != 0 {
				dom = "[]int{0, 1, 2, 3, 5}"
			}
			if depth > 0 {
				dom = "[]int{0, 1, 4}" // fields of a struct parameter: a smaller domain keeps the product of the domains small
			}
			if u.Kind() == types.Uint8 {
				dom = "[]int{0, ' ', ':', '1', 'a', 'Z', '\\n', 0x7f, 0xe9, 0xff}"
			}
			if u.Kind() == types.Int32 {
				dom = "[]int{0, ' ', ':', '1', 'a', 'Z', '\\n', '\\t', ';', '$', '€', 0xe9, 0x1F600, 0xFFFD, -1}"
			}
			return &argGen{loops: []string{fmt.Sprintf("for _, %s := range %s {", name, dom)}, expr: fmt.Sprintf("%s(%s)", relType(t, pkg), name), show: []string{name}, combos: strings.Count(dom, ",") + 1}, true
		}
	case *types.Struct:
		if depth > 2 || u.NumFields() > 4 {
			return nil, false
		}
		g := &argGen{combos: 1}
		var fields []string
		for i := 0; i < u.NumFields(); i++ {
			f := u.Field(i)
			if !f.Exported() && f.Pkg() != pkg {
				return nil, false
			}
			sub, ok := genArg(name+"_"+f.Name(), f.Type(), pkg, depth+1)
			if !ok {
				return nil, false
			}
			g.loops = append(g.loops, sub.loops...)
			g.show = append(g.show, sub.show...)
			g.nStr += sub.nStr
			g.combos *= sub.combos
			fields = append(fields, f.Name()+": "+sub.expr)
		}
		// the struct value itself is bound to the parameter name
		g.loops = append(g.loops, fmt.Sprintf("{ %s := %s{%s}; _ = %s", name, relType(t, pkg), strings.Join(fields, ", "), name))
		g.expr = name
		return g, true
	}
	return nil, false
}

type replayResult struct {
	Verdict string // confirmed | none | unsupported | error
	Detail  string
	Checked []string // labels of the ensures clauses that were evaluated at run time
}

var replayCache = map[string]*replayResult{}

// smallScopeReplay searches a small exhaustive domain for an input on which the real function panics, hangs or breaks
// one of its (renderable) ensures clauses.
func smallScopeReplay(repo *Repo, repoDir string, key string) *replayResult {
	if r, ok := replayCache[key]; ok {
		return r
	}
	r := smallScopeReplay1(repo, repoDir, key)
	replayCache[key] = r
	return r
}

func smallScopeReplay1(repo *Repo, repoDir string, key string) *replayResult {
	fn := repo.funcs[key]
	fc := repo.cs.Funcs[key]
	if fn == nil || fc == nil || fn.Pkg == nil {
		return &replayResult{Verdict: "unsupported", Detail: "no contract-bearing function " + key}
	}
	pkg := fn.Pkg.Pkg
	params := fn.Params
	var recvLoops []string
	var recvShow []string
	recvName := ""
	if fn.Signature.Recv() != nil {
		recvName = params[0].Name()
		params = params[1:]
		rt := relType(fn.Signature.Recv().Type(), pkg)
		switch {
		case rt == "*Lexer" && pkg.Name() == "parser":
			recvLoops = []string{"for _, in := range strs {", "for pos := 0; pos <= len(in); pos++ {", "for _, atStart := range []bool{false, true} {",
				fmt.Sprintf("{ if !spec_bnd(in, pos) { continue }; %s := &Lexer{input: in, pos: pos, line: 1 + spec_nlb(in, pos), column: 1 + spec_u16(in, pos) - spec_u16(in, spec_lsof(in, pos)), atStart: atStart}; _ = %s", recvName, recvName)}
			recvShow = []string{"in", "pos", "atStart"}
		case rt == "*PositionMapper" && pkg.Name() == "lsputil":
			recvLoops = []string{"for _, content := range strs {", fmt.Sprintf("{ %s := NewPositionMapper(content); _ = %s", recvName, recvName)}
			recvShow = []string{"content"}
		default:
			return &replayResult{Verdict: "unsupported", Detail: "receiver " + rt + " has no replay constructor"}
		}
	}
	var loops, args, show []string
	loops = append(loops, recvLoops...)
	show = append(show, recvShow...)
	nStr := 0
	combos := 1
	if recvName != "" {
		nStr = 1
		if len(recvLoops) > 2 {
			combos = 8 // lexer: offsets of the input x atStart
		}
	}
	strNames := map[string]bool{"in": true, "content": true}
	for _, p := range params {
		g, ok := genArg(p.Name(), p.Type(), pkg, 0)
		if !ok {
			return &replayResult{Verdict: "unsupported", Detail: fmt.Sprintf("parameter %s %s is outside the replay harness (strings, integers, booleans and small structs of those)", p.Name(), relType(p.Type(), pkg))}
		}
		loops = append(loops, g.loops...)
		args = append(args, g.expr)
		show = append(show, g.show...)
		nStr += g.nStr
		combos *= g.combos
		if b, isB := p.Type().Underlying().(*types.Basic); isB && b.Info()&types.IsString != 0 {
			strNames[p.Name()] = true
		}
	}
	// renderable specdefs: basic parameter and result types, body renders
	g := &goRender{specdefs: map[string]*SpecDef{}, strNames: strNames}
	for i := range repo.cs.Specs {
		sd := &repo.cs.Specs[i]
		ok := sd.Body != "" && (sd.Ret == "int" || sd.Ret == "string" || sd.Ret == "bool")
		for _, p := range sd.Params {
			if p[1] != "string" && p[1] != "int" && p[1] != "bool" {
				ok = false
			}
		}
		if ok {
			g.specdefs[sd.Name] = sd
		}
	}
	var specGo []string
	for changed := true; changed; {
		changed = false
		specGo = specGo[:0]
		var names []string
		for n := range g.specdefs {
			names = append(names, n)
		}
		sort.Strings(names)
		for _, n := range names {
			sd := g.specdefs[n]
			sg := &goRender{specdefs: g.specdefs, strNames: map[string]bool{}}
			var ps []string
			for _, p := range sd.Params {
				ps = append(ps, p[0]+" "+p[1])
				if p[1] == "string" {
					sg.strNames[p[0]] = true
				}
			}
			body, ok := sg.tryClause(repo.cs, sd.Pkg, sd.Body, nil)
			if !ok {
				delete(g.specdefs, n)
				changed = true
				break
			}
			specGo = append(specGo, fmt.Sprintf("func spec_%s(%s) %s { return %s } // SPEC %s", n, strings.Join(ps, ", "), sd.Ret, body, n))
		}
	}
	type item struct{ kind, label, text, alt string }
	var items []item
	var olds []string
	nReq := 0
	for i, rq := range fc.Requires {
		var ro []string
		code, ok := g.tryClause(repo.cs, fc.Pkg, rq.Src, &ro)
		if !ok || len(ro) > 0 {
			continue
		}
		nReq++
		items = append(items, item{kind: "REQ", label: strconv.Itoa(i), text: fmt.Sprintf("\t\tif !spec_safeB(func() bool { return %s }, false) { continue } // REQ %d", code, i)})
	}
	uncompiledReq := nReq < len(fc.Requires)
	var checked []string
	for i, en := range fc.Ensures {
		g.noWrap, g.usedIdx = false, false
		code, ok := g.tryClause(repo.cs, fc.Pkg, en.Src, &olds)
		if !ok {
			continue
		}
		label := en.Label
		if label == "" {
			label = fmt.Sprintf("ensures#%d", i)
		}
		checked = append(checked, label)
		it := item{kind: "ENS", label: label, text: fmt.Sprintf("\t\t\t\tif !spec_safeB(func() bool { return %s }, true) { return %q } // ENS %s", code, "ensures ["+label+"] "+en.Src, label)}
		if g.usedIdx {
			g.noWrap = true
			if code2, ok := g.tryClause(repo.cs, fc.Pkg, en.Src, &olds); ok {
				it.alt = fmt.Sprintf("\t\t\t\tif !spec_safeB(func() bool { return %s }, true) { return %q } // ENS %s", code2, "ensures ["+label+"] "+en.Src, label)
			}
			g.noWrap = false
		}
		items = append(items, it)
	}
	nres := fn.Signature.Results().Len()
	callExpr := fmt.Sprintf("%s(%s)", fn.Name(), strings.Join(args, ", "))
	if recvName != "" {
		callExpr = fmt.Sprintf("%s.%s(%s)", recvName, fn.Name(), strings.Join(args, ", "))
	}
	var resNames, resAlias []string
	for i := 0; i < nres; i++ {
		rn := fmt.Sprintf("result%d", i)
		resNames = append(resNames, rn)
		rv := fn.Signature.Results().At(i)
		conv := rn
		if b, isB := rv.Type().Underlying().(*types.Basic); isB && b.Info()&types.IsInteger != 0 {
			conv = "int(" + rn + ")"
		}
		if named := rv.Name(); named != "" && named != "_" {
			resAlias = append(resAlias, fmt.Sprintf("%s := %s; _ = %s", named, conv, named))
		}
		if i == 0 && nres == 1 {
			resAlias = append(resAlias, fmt.Sprintf("result := %s; _ = result", conv))
		}
		resAlias = append(resAlias, fmt.Sprintf("_ = %s", rn))
	}
	assign := callExpr
	if nres > 0 {
		assign = strings.Join(resNames, ", ") + " := " + callExpr
	}
	var fmtParts, fmtVals []string
	for _, v := range show {
		fmtParts = append(fmtParts, v+"=%#v")
		fmtVals = append(fmtVals, v)
	}
	descr := `""`
	if len(fmtVals) > 0 {
		descr = fmt.Sprintf("fmt.Sprintf(%q, %s)", strings.Join(fmtParts, " "), strings.Join(fmtVals, ", "))
	}
	// string length bound: the largest L with (alphabet^L)^nStr x (other domains) within about 8 million calls
	maxLen := 1
	for L := 2; L <= 4 && nStr > 0; L++ {
		n := 1.0
		for i := 0; i < nStr*L; i++ {
			n *= 24
		}
		if n*float64(combos) <= 8e6 {
			maxLen = L
		}
	}
	mined := mineConstants(fn)
	dropped := map[string]bool{}
	useAlt := map[string]bool{}
	altOf := map[string]string{}
	for _, it := range items {
		if it.alt != "" {
			altOf[it.label] = it.alt
		}
	}
	var lastOut string
	for round := 0; round < 12; round++ {
		var reqLines, ensLines, oldLines, specLines []string
		for _, it := range items {
			if dropped[it.kind+" "+it.label] {
				continue
			}
			if it.kind == "REQ" {
				reqLines = append(reqLines, it.text)
			} else if useAlt[it.label] && it.alt != "" {
				ensLines = append(ensLines, it.alt)
			} else {
				ensLines = append(ensLines, it.text)
			}
		}
		for i, o := range olds {
			if dropped["OLD "+strconv.Itoa(i)] {
				continue
			}
			oldLines = append(oldLines, fmt.Sprintf("\t\t\t\told%d := %s; _ = old%d // OLD %d", i, o, i, i))
		}
		for _, s := range specGo {
			name := s[strings.LastIndex(s, "// SPEC ")+8:]
			if !dropped["SPEC "+name] {
				specLines = append(specLines, s)
			}
		}
		test := fmt.Sprintf(`package %s

import (
	"fmt"
	"strings"
	"testing"
	"time"
	"unicode"
	"unicode/utf8"
)

var _ = utf8.RuneError
var _ = strings.ToLower
var _ = unicode.IsLetter
%s
%s
%s

func TestVerifReplaySmallScope(t *testing.T) {
	alphabet := []string{"a", "B", ":", " ", "|", "(", ")", ";", "1", ".", ",", "-", "\n", "\r", "\t", "\"", "@", "=", "é", "\U0001F600", "\xff"}
	alphabet = append(alphabet, minedRunes...)
	strs := []string{""}
	frontier := []string{""}
	for n := 0; n < %d; n++ {
		var next []string
		for _, p := range frontier {
			for _, a := range alphabet {
				next = append(next, p+a)
			}
		}
		strs = append(strs, next...)
		frontier = next
	}
	// second tier: longer strings over a core alphabet (a letter, a digit, blank, newline, a 2-byte and a 4-byte character
	// and the one-character string constants of the code under replay)
	core := []string{"a", "1", " ", "\n", "é", "\U0001F600"}
	for _, m := range minedStrings {
		if len(m) == 1 && len(core) < 12 {
			dup := false
			for _, c := range core {
				dup = dup || c == m
			}
			if !dup {
				core = append(core, m)
			}
		}
	}
	for extra := 1; extra <= 2; extra++ {
		n := 1
		for i := 0; i < %d+extra; i++ {
			n *= len(core)
		}
		if n*%d > 6000000 || %d != 1 {
			break
		}
		var next []string
		for _, p := range frontier {
			_ = p
		}
		var gen func(prefix string, left int)
		gen = func(prefix string, left int) {
			if left == 0 {
				next = append(next, prefix)
				return
			}
			for _, c := range core {
				gen(prefix+c, left-1)
			}
		}
		gen("", %d+extra)
		strs = append(strs, next...)
	}
	for _, m := range minedStrings {
		strs = append(strs, m, m+" ", m+"a", " "+m)
	}
	cases, checked := 0, 0
	deadline := time.Now().Add(45 * time.Second)
	%s
		cases++
		if cases%%256 == 0 && time.Now().After(deadline) {
			fmt.Printf("REPLAY-NONE cases=%%d checked=%%d (time limit)\n", cases, checked)
			return
		}
%s
		checked++
		input := %s
		done := make(chan string, 1)
		go func() {
			phase := "call"
			defer func() {
				if r := recover(); r != nil {
					if phase == "call" {
						done <- fmt.Sprintf("panic: %%v", r)
					} else {
						done <- ""
					}
				}
			}()
			done <- func() string {
%s
				%s
				phase = "check"
				%s
%s
				return ""
			}()
		}()
		failed := ""
		select {
		case failed = <-done:
		case <-time.After(3 * time.Second):
			failed = "does not return within 3 s"
		}
		if failed != "" {
			fmt.Printf("REPLAY-FAILS %%s.%%s on %%s: %%s (input number %%d of the enumeration)\n", %q, %q, input, failed, checked)
			return
		}
	%s
	fmt.Printf("REPLAY-NONE cases=%%d checked=%%d\n", cases, checked)
}
`, pkg.Name(), replaySpecLib, strings.Join(specLines, "\n"), mined, maxLen, maxLen, combos, nStr, maxLen, strings.Join(loops, "\n\t"), strings.Join(reqLines, "\n"), descr,
			strings.Join(oldLines, "\n"), assign, strings.Join(resAlias, "; "), strings.Join(ensLines, "\n"), pkg.Name(), strings.TrimPrefix(key, pkg.Name()+"."), strings.Repeat("}", len(loops)))
		tmp, err := os.MkdirTemp("", "govc-replay-")
		if err != nil {
			return &replayResult{Verdict: "error", Detail: err.Error()}
		}
		tf := filepath.Join(tmp, "replay_test.go")
		os.WriteFile(tf, []byte(test), 0o644)
		rel := strings.TrimPrefix(pkg.Path(), "github.com/juev/hledger-lsp/")
		out, _ := runOverlayTest(repoDir, rel, tf, "TestVerifReplaySmallScope", 90*time.Second)
		os.RemoveAll(tmp)
		lastOut = out
		if os.Getenv("GOVC_DEBUG_REPLAY") != "" {
			fmt.Println(test)
			fmt.Println(out)
		}
		for _, l := range strings.Split(out, "\n") {
			l = strings.TrimSpace(l)
			if strings.HasPrefix(l, "REPLAY-FAILS") {
				if uncompiledReq {
					// the input may lie outside the contract's domain: not a confirmed counterexample
					return &replayResult{Verdict: "candidate", Detail: l + " [not every precondition could be evaluated at run time, so the input may lie outside the contract's domain: not counted as a confirmed failing input]", Checked: checked}
				}
				return &replayResult{Verdict: "confirmed", Detail: l, Checked: checked}
			}
			if strings.HasPrefix(l, "REPLAY-NONE") {
				return &replayResult{Verdict: "none", Detail: l, Checked: checked}
			}
		}
		// build errors: drop the offending rendered lines and retry
		lines := strings.Split(test, "\n")
		re := regexp.MustCompile(`replay_test\.go:(\d+):\d+:`)
		progress := false
		for _, m := range re.FindAllStringSubmatch(out, -1) {
			n, _ := strconv.Atoi(m[1])
			if n < 1 || n > len(lines) {
				continue
			}
			if mm := regexp.MustCompile(`// (REQ|ENS|OLD|SPEC) (\S+)$`).FindStringSubmatch(lines[n-1]); mm != nil && !dropped[mm[1]+" "+mm[2]] {
				if mm[1] == "ENS" && altOf[mm[2]] != "" && !useAlt[mm[2]] {
					useAlt[mm[2]] = true // try the other reading of x[i] before giving the clause up
					progress = true
					continue
				}
				dropped[mm[1]+" "+mm[2]] = true
				progress = true
				if mm[1] == "REQ" {
					uncompiledReq = true
				}
				if mm[1] == "ENS" {
					for i, c := range checked {
						if c == mm[2] {
							checked = append(checked[:i:i], checked[i+1:]...)
							break
						}
					}
				}
			}
		}
		if !progress {
			break
		}
	}
	if len(lastOut) > 900 {
		lastOut = lastOut[len(lastOut)-900:]
	}
	return &replayResult{Verdict: "error", Detail: "the replay test did not run: " + lastOut}
}

var _ = time.Second

// mineConstants collects boundary values from the code under replay (the function and its static callees in the
// repository, three levels deep): integer constants in the rune range contribute the characters c-1, c, c+1 to the
// alphabet, short string constants are added to the string domain.
func mineConstants(fn *ssa.Function) string {
	runes := map[rune]bool{}
	strsSet := map[string]bool{}
	seen := map[*ssa.Function]bool{}
	var visit func(f *ssa.Function, depth int)
	visit = func(f *ssa.Function, depth int) {
		if f == nil || seen[f] || depth > 3 || f.Pkg == nil || !strings.HasPrefix(f.Pkg.Pkg.Path(), "github.com/juev/hledger-lsp") {
			return
		}
		seen[f] = true
		for _, b := range f.Blocks {
			for _, in := range b.Instrs {
				var ops []*ssa.Value
				for _, op := range in.Operands(ops) {
					if op == nil || *op == nil {
						continue
					}
					if c, ok := (*op).(*ssa.Const); ok && c.Value != nil {
						switch c.Value.Kind() {
						case constant.Int:
							if v, exact := constant.Int64Val(c.Value); exact && v > 8 && v <= 0x10FFFF {
								for _, r := range []rune{rune(v) - 1, rune(v), rune(v) + 1} {
									if r > 8 && r <= 0x10FFFF && !(r >= 0xD800 && r <= 0xDFFF) {
										runes[r] = true
									}
								}
							}
						case constant.String:
							if sv := constant.StringVal(c.Value); len(sv) > 0 && len(sv) <= 12 {
								strsSet[sv] = true
							}
						}
					}
				}
				if call, ok := in.(ssa.CallInstruction); ok {
					visit(call.Common().StaticCallee(), depth+1)
				}
			}
		}
		for _, a := range f.AnonFuncs {
			visit(a, depth)
		}
	}
	visit(fn, 0)
	var rs []int
	for r := range runes {
		rs = append(rs, int(r))
	}
	sort.Ints(rs)
	if len(rs) > 14 {
		// keep the largest values (multi-byte boundaries are the ones the fixed alphabet lacks) and a few small ones
		rs = append(rs[:4:4], rs[len(rs)-10:]...)
	}
	var ss []string
	for x := range strsSet {
		ss = append(ss, x)
	}
	sort.Strings(ss)
	if len(ss) > 40 {
		ss = ss[:40]
	}
	var b strings.Builder
	b.WriteString("var minedRunes = []string{")
	for _, r := range rs {
		fmt.Fprintf(&b, "string(rune(%d)), ", r)
	}
	b.WriteString("}\nvar minedStrings = []string{")
	for _, x := range ss {
		fmt.Fprintf(&b, "%q, ", x)
	}
	b.WriteString("}\n")
	return b.String()
}
