package main

import (
	"context"
	"fmt"
	"os"
	"os/exec"
	"path/filepath"
	"strings"
	"time"
)

// runOverlayTest injects testFile (a _test.go file kept under /verif) into package dir pkgRel of the repository with
// `go test -overlay` — nothing is written into the repository — and runs the named test. It returns the combined output.
func runOverlayTest(repo, pkgRel, testFile, run string, timeout time.Duration) (string, error) {
	tmp, err := os.MkdirTemp("", "govc-ov-")
	if err != nil {
		return "", err
	}
	defer os.RemoveAll(tmp)
	pkgDir := filepath.Join(repo, pkgRel)
	target := filepath.Join(pkgDir, "zz_verif_"+filepath.Base(testFile))
	if !strings.HasSuffix(target, "_test.go") {
		target += "_test.go"
	}
	ov := filepath.Join(tmp, "ov.json")
	os.WriteFile(ov, []byte(fmt.Sprintf(`{"Replace": {%q: %q}}`, target, testFile)), 0o644)
	ctx, cancel := context.WithTimeout(context.Background(), timeout+30*time.Second)
	defer cancel()
	cmd := exec.CommandContext(ctx, "go", "test", "-overlay", ov, "-vet=off", "-count=1", "-timeout", fmt.Sprintf("%ds", int(timeout.Seconds())), "-run", "^"+run+"$", "-v", ".")
	cmd.Dir = pkgDir
	cmd.Env = append(os.Environ(), "GOFLAGS=-mod=mod", "GOPROXY=off", "GOTOOLCHAIN=auto")
	out, err := cmd.CombinedOutput()
	return string(out), err
}

// runWitness re-runs the recorded failing input of a known finding on the real code. It reports true when the
// defect still manifests (the test prints WITNESS-FAILS).
func runWitness(opt *checkOpts, f *Finding) (bool, string) {
	out, _ := runOverlayTest(opt.repo, f.WitnessPkg, filepath.Join(opt.verif, f.Witness), f.WitnessRun, 60*time.Second)
	var keep []string
	for _, l := range strings.Split(out, "\n") {
		if strings.Contains(l, "WITNESS-") {
			keep = append(keep, strings.TrimSpace(l))
		}
	}
	fails := strings.Contains(out, "WITNESS-FAILS")
	if !fails && !strings.Contains(out, "WITNESS-HOLDS") {
		// the witness did not run (build error after a change of the code under test): keep the raw output
		if len(out) > 1500 {
			out = out[len(out)-1500:]
		}
		return false, "witness did not run:\n" + out
	}
	return fails, strings.Join(keep, "\n")
}
