package workspace

import (
	"fmt"
	"testing"

	"github.com/juev/hledger-lsp/internal/parser"
)

// C12 workspace.ghostAddThenRemove#ensures.inverse_templates: removing a file must restore the payee templates of the others.
func TestVerifWitness_C12_templates_not_restored(t *testing.T) {
	src := "2024-01-01 shop\n    expenses:food  10 USD\n    assets:cash\n"
	j1, _ := parser.Parse(src)
	j2, _ := parser.Parse(src)
	idx := NewWorkspaceIndex()
	idx.SetFileIndex("/a.journal", BuildFileIndexFromJournal("/a.journal", j1))
	idx.SetFileIndex("/b.journal", BuildFileIndexFromJournal("/b.journal", j2))
	idx.RemoveFile("/b.journal")
	snap := idx.Snapshot()
	if snap.PayeeCounts["shop"] == 1 && len(snap.PayeeTemplates["shop"]) == 0 {
		fmt.Printf("WITNESS-FAILS two files share payee shop; after removing one: payeeCounts[shop]=%d but templates[shop] is gone\n", snap.PayeeCounts["shop"])
		return
	}
	fmt.Println("WITNESS-HOLDS")
}
