package lsputil

import (
	"fmt"
	"testing"

	"go.lsp.dev/protocol"
)

// C01 lsputil.(*PositionMapper).LSPToByte#ensures.crlf_clamp: a character past the end of a CRLF line clamps before the "\r\n".
func TestVerifWitness_C01_LSPToByte_crlf_clamp(t *testing.T) {
	m := NewPositionMapper("a\r\nb")
	got := m.LSPToByte(protocol.Position{Line: 0, Character: 9})
	if got != 1 {
		out := m.ApplyChange(protocol.Range{Start: protocol.Position{Line: 0, Character: 9}, End: protocol.Position{Line: 0, Character: 9}}, "X")
		fmt.Printf("WITNESS-FAILS content=%q position 0:9 maps to byte %d (a client clamps to 1, before the CR); insertion gives %q, a client holds %q\n", "a\r\nb", got, out, "aX\r\nb")
		return
	}
	fmt.Println("WITNESS-HOLDS")
}
