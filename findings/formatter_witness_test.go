package formatter

import (
	"fmt"
	"testing"

	"github.com/shopspring/decimal"
)

// C04 formatter.FormatNumber#lossless.decimal[...]: formatting must not change the quantity, even when the commodity's
// display format has fewer decimals than the amount carries.
func TestVerifWitness_C04_format_rounds_quantity(t *testing.T) {
	q := decimal.RequireFromString("1.2345")
	out := FormatNumber(q, ParseNumberFormat("1,000.00"))
	back, err := decimal.NewFromString(out)
	if err != nil || !back.Equal(q) {
		fmt.Printf("WITNESS-FAILS quantity 1.2345 under the display format 1,000.00 is written as %q\n", out)
		return
	}
	fmt.Println("WITNESS-HOLDS")
}

func TestVerifWitness_C04_format_rounds_to_integer(t *testing.T) {
	q := decimal.RequireFromString("2.5")
	out := FormatNumber(q, ParseNumberFormat("1000"))
	back, err := decimal.NewFromString(out)
	if err != nil || !back.Equal(q) {
		fmt.Printf("WITNESS-FAILS quantity 2.5 under the display format 1000 (no decimals) is written as %q\n", out)
		return
	}
	fmt.Println("WITNESS-HOLDS")
}
