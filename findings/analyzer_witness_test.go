package analyzer

import (
	"fmt"
	"testing"
	"time"

	"github.com/juev/hledger-lsp/internal/include"
	"github.com/juev/hledger-lsp/internal/parser"
)

// C15 analyzer.(*Analyzer).createBalanceDiagnostic#loop1.commutes: the message of an unbalanced transaction must not
// depend on map iteration order.
func TestVerifWitness_C15_balance_message_order(t *testing.T) {
	src := "2024-01-01 x\n    assets:a  1 USD\n    assets:b  2 EUR\n    assets:c  3 GBP\n"
	j, _ := parser.Parse(src)
	seen := map[string]bool{}
	for i := 0; i < 200; i++ {
		res := New().Analyze(j)
		for _, d := range res.Diagnostics {
			if d.Code == "UNBALANCED" {
				seen[d.Message] = true
			}
		}
	}
	if len(seen) > 1 {
		fmt.Printf("WITNESS-FAILS one transaction out of balance in 3 commodities: %d different messages in 200 runs\n", len(seen))
		return
	}
	fmt.Println("WITNESS-HOLDS")
}

// C15 analyzer.collect*FromResolved#loop*.commutes: the name lists gathered over an include tree must not depend on the
// iteration order of the Files map.
func TestVerifWitness_C15_resolved_list_order(t *testing.T) {
	mk := func(payee string) *include.ResolvedJournal { return nil }
	_ = mk
	r := include.NewResolvedJournal(nil)
	for _, n := range []string{"a", "b", "c", "d"} {
		j, _ := parser.Parse("2024-01-01 shop-" + n + "\n    expenses:" + n + "  1 CUR" + n + "\n    assets:cash\n")
		r.Files["/"+n+".journal"] = j
		r.FileOrder = append(r.FileOrder, "/"+n+".journal")
	}
	seen := map[string]bool{}
	for i := 0; i < 200; i++ {
		seen[fmt.Sprint(collectPayeesFromResolved(r), collectCommoditiesFromResolved(r))] = true
	}
	if len(seen) > 1 {
		fmt.Printf("WITNESS-FAILS four included files with different payees/commodities: %d different payee/commodity list orders in 200 runs\n", len(seen))
		return
	}
	fmt.Println("WITNESS-HOLDS")
}

// C06 parser.(*Parser).parseAmount#ensures.exponent_bounded: an amount with an absurd exponent must not cost seconds of arithmetic.
func TestVerifWitness_C06_extreme_exponent(t *testing.T) {
	j, _ := parser.Parse("2024-01-01 x\n    expenses:food  1E4000000 USD\n    assets:cash  1 USD\n")
	t0 := time.Now()
	for i := range j.Transactions {
		CheckBalance(&j.Transactions[i])
	}
	if d := time.Since(t0); d > 300*time.Millisecond {
		fmt.Printf("WITNESS-FAILS balancing '1E4000000 USD' against '1 USD' (a 3-line document) took %v\n", d)
		return
	}
	fmt.Println("WITNESS-HOLDS")
}
