package include

import (
	"fmt"
	"os"
	"path/filepath"
	"testing"
)

// C10 include.(*Loader).loadWithContent#ensures.stack: the visited set must be an ancestor stack; a diamond is not a cycle.
func TestVerifWitness_C10_diamond_is_not_a_cycle(t *testing.T) {
	dir := t.TempDir()
	w := func(name, body string) { os.WriteFile(filepath.Join(dir, name), []byte(body), 0o644) }
	w("a.journal", "include b.journal\ninclude c.journal\n")
	w("b.journal", "include d.journal\n")
	w("c.journal", "include d.journal\n")
	w("d.journal", "2024-01-01 x\n    a  1\n    b\n")
	_, errs := NewLoader().Load(filepath.Join(dir, "a.journal"))
	for _, e := range errs {
		if e.Kind == ErrorCycleDetected {
			fmt.Printf("WITNESS-FAILS diamond a->{b,c}->d reports %q\n", e.Message)
			return
		}
	}
	fmt.Println("WITNESS-HOLDS")
}

// C11 include.(*Loader).loadSingleInclude: a second load through the cache must give the same file set.
func TestVerifWitness_C11_cache_hit_drops_nested(t *testing.T) {
	dir := t.TempDir()
	w := func(name, body string) { os.WriteFile(filepath.Join(dir, name), []byte(body), 0o644) }
	w("p.journal", "include q.journal\n")
	w("q.journal", "include r.journal\n")
	w("r.journal", "2024-01-01 x\n    a  1\n    b\n")
	l := NewLoader()
	r1, _ := l.Load(filepath.Join(dir, "p.journal"))
	r2, _ := l.Load(filepath.Join(dir, "p.journal"))
	if len(r1.FileOrder) != len(r2.FileOrder) {
		fmt.Printf("WITNESS-FAILS chain p->q->r: first load %d files, second load (cache) %d files\n", len(r1.FileOrder), len(r2.FileOrder))
		return
	}
	fmt.Println("WITNESS-HOLDS")
}
