package include

import (
	"fmt"
	"os"
	"path/filepath"
	"strings"
	"testing"
)

// C10 include.(*Loader).loadWithContent#ensures.stack: the visited set must be an ancestor stack; a diamond is not a cycle.
func TestVerifWitness_C10_diamond_is_not_a_cycle(t *testing.T) {
	dir := t.TempDir()
	w := func(name, body string) { os.WriteFile(filepath.Join(dir, name), []byte(body), 0o644) }
	w("a.journal", "include b.journal\ninclude c.journal\n")
	w("b.journal", "include d.journal\n")
	w("c.journal", "include d.journal\n")
	w("d.journal", "2024-01-01 x\n    a  1\n    b\n")
	_, errs := NewLoader().Load(filepath.Join(dir, "a.journal"))
	for _, e := range errs {
		if e.Kind == ErrorCycleDetected {
			fmt.Printf("WITNESS-FAILS diamond a->{b,c}->d reports %q\n", e.Message)
			return
		}
	}
	fmt.Println("WITNESS-HOLDS")
}

// C11 include.(*Loader).loadSingleInclude: a second load through the cache must give the same file set.
func TestVerifWitness_C11_cache_hit_drops_nested(t *testing.T) {
	dir := t.TempDir()
	w := func(name, body string) { os.WriteFile(filepath.Join(dir, name), []byte(body), 0o644) }
	w("p.journal", "include q.journal\n")
	w("q.journal", "include r.journal\n")
	w("r.journal", "2024-01-01 x\n    a  1\n    b\n")
	l := NewLoader()
	r1, _ := l.Load(filepath.Join(dir, "p.journal"))
	r2, _ := l.Load(filepath.Join(dir, "p.journal"))
	if len(r1.FileOrder) != len(r2.FileOrder) {
		fmt.Printf("WITNESS-FAILS chain p->q->r: first load %d files, second load (cache) %d files\n", len(r1.FileOrder), len(r2.FileOrder))
		return
	}
	fmt.Println("WITNESS-HOLDS")
}

// C10 include.(*Loader).loadParsed#ensures.depth_is_nesting: the depth limit bounds the nesting depth, not the number of files.
func TestVerifWitness_C10_flat_list_is_not_deep(t *testing.T) {
	dir := t.TempDir()
	w := func(name, body string) { os.WriteFile(filepath.Join(dir, name), []byte(body), 0o644) }
	root := ""
	for i := 0; i < 60; i++ {
		n := fmt.Sprintf("m%02d.journal", i)
		w(n, "")
		root += "include " + n + "\n"
	}
	w("main.journal", root)
	r, errs := NewLoader().Load(filepath.Join(dir, "main.journal"))
	if len(errs) != 0 || r == nil || len(r.FileOrder) != 60 {
		fmt.Printf("WITNESS-FAILS a flat list of 60 includes (default depth limit 50): %d files, %d errors\n", len(r.FileOrder), len(errs))
		return
	}
	fmt.Println("WITNESS-HOLDS")
}

// C10 include.onDirective#ensures.too_deep_on_directive: a too-deep include is reported on the directive that names it.
func TestVerifWitness_C10_too_deep_on_directive(t *testing.T) {
	dir := t.TempDir()
	w := func(name, body string) { os.WriteFile(filepath.Join(dir, name), []byte(body), 0o644) }
	w("a.journal", "; first line\ninclude b.journal\n")
	w("b.journal", "")
	l := NewLoader()
	l.SetLimits(Limits{MaxFileSizeBytes: 1 << 20, MaxIncludeDepth: 1})
	_, errs := l.Load(filepath.Join(dir, "a.journal"))
	for _, e := range errs {
		if e.Kind == ErrorCycleDetected && e.Range.Start.Line != 2 {
			fmt.Printf("WITNESS-FAILS depth limit 1, a includes b on line 2: error reported at line %d\n", e.Range.Start.Line)
			return
		}
	}
	fmt.Println("WITNESS-HOLDS")
}

// C11 / C19 include.(*Loader).SetLimits#ensures.new_limits_empty_cache: after the size limit is lowered by configuration a
// file admitted under the old limit must not be served from the cache (a fresh loader with the new limits refuses it).
func TestVerifWitness_C11_lowered_size_limit_applies_to_cached_files(t *testing.T) {
	dir := t.TempDir()
	big := "2024-01-01 x\n    assets:a  1 USD\n    assets:b\n" + strings.Repeat("; padding padding padding\n", 40)
	os.WriteFile(filepath.Join(dir, "big.journal"), []byte(big), 0o644)
	os.WriteFile(filepath.Join(dir, "main.journal"), []byte("include big.journal\n"), 0o644)
	l := NewLoader()
	r1, e1 := l.Load(filepath.Join(dir, "main.journal"))
	if len(e1) != 0 || r1 == nil || len(r1.Files) != 1 {
		fmt.Println("WITNESS-HOLDS (setup did not load)", e1)
		return
	}
	limits := DefaultLimits()
	limits.MaxFileSizeBytes = 100
	l.SetLimits(limits)
	r2, e2 := l.Load(filepath.Join(dir, "main.journal"))
	if len(e2) == 0 && r2 != nil && len(r2.Files) == 1 {
		fmt.Printf("WITNESS-FAILS big.journal (%d bytes) is still included without a diagnostic after the size limit was set to 100\n", len(big))
		return
	}
	fmt.Println("WITNESS-HOLDS")
}
