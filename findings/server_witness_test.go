package server

import (
	"context"
	"encoding/json"
	"fmt"
	"os"
	"path/filepath"
	"strings"
	"testing"

	"go.lsp.dev/protocol"

	"github.com/juev/hledger-lsp/internal/ast"
	"github.com/juev/hledger-lsp/internal/include"
	"github.com/juev/hledger-lsp/internal/parser"
	"github.com/juev/hledger-lsp/internal/workspace"
)

// C01 server.lemma.wire_step: a ranged insertion at 0:0 (empty range at the start of a non-empty document) must insert,
// not replace the whole text. After decoding, the change is indistinguishable from a range-less one.
func TestVerifWitness_C01_insert_at_0_0(t *testing.T) {
	s := NewServer()
	uri := protocol.DocumentURI("file:///w.journal")
	s.DidOpen(context.Background(), &protocol.DidOpenTextDocumentParams{TextDocument: protocol.TextDocumentItem{URI: uri, Text: "old\n"}})
	var params protocol.DidChangeTextDocumentParams
	raw := `{"textDocument":{"uri":"file:///w.journal","version":2},"contentChanges":[{"range":{"start":{"line":0,"character":0},"end":{"line":0,"character":0}},"text":"X"}]}`
	if err := json.Unmarshal([]byte(raw), &params); err != nil {
		fmt.Println("WITNESS-HOLDS (decode error)", err)
		return
	}
	s.DidChange(context.Background(), &params)
	got, _ := s.GetDocument(uri)
	if got != "Xold\n" {
		fmt.Printf("WITNESS-FAILS insertion of \"X\" at 0:0 into \"old\\n\": server holds %q, a client holds %q\n", got, "Xold\n")
		return
	}
	fmt.Println("WITNESS-HOLDS")
}

// C08/C16 server.calculateTextEditRange#ensures.start_le_cursor: the edit of a completion item must not start after the cursor.
func TestVerifWitness_C16_edit_start_past_cursor(t *testing.T) {
	r := calculateTextEditRange("account foo", protocol.Position{Line: 0, Character: 3}, ContextAccount)
	if r != nil && r.Start.Character > r.End.Character {
		fmt.Printf("WITNESS-FAILS line \"account foo\", cursor at 0:3, account context: edit range %d..%d starts after the cursor\n", r.Start.Character, r.End.Character)
		return
	}
	fmt.Println("WITNESS-HOLDS")
}

// C09 server.(*Server).References#call[server.findReferences]...: occurrences must be attributed to the file that contains
// them, whichever file of the tree the request is made from.
func TestVerifWitness_C09_references_from_included_file(t *testing.T) {
	dir := t.TempDir()
	mainSrc := "include inc.journal\n\n2024-01-01 root tx\n    assets:cash  1 USD\n    income:x\n"
	incSrc := "2024-01-02 inc tx\n    expenses:food  2 USD\n    assets:cash\n"
	os.WriteFile(filepath.Join(dir, "main.journal"), []byte(mainSrc), 0o644)
	os.WriteFile(filepath.Join(dir, "inc.journal"), []byte(incSrc), 0o644)
	s := NewServer()
	s.workspace = workspace.NewWorkspace(dir, s.loader)
	if err := s.workspace.Initialize(); err != nil {
		fmt.Println("WITNESS-HOLDS (workspace init failed)", err)
		return
	}
	incURI := protocol.DocumentURI("file://" + filepath.Join(dir, "inc.journal"))
	s.DidOpen(context.Background(), &protocol.DidOpenTextDocumentParams{TextDocument: protocol.TextDocumentItem{URI: incURI, Text: incSrc}})
	locs, _ := s.References(context.Background(), &protocol.ReferenceParams{
		TextDocumentPositionParams: protocol.TextDocumentPositionParams{TextDocument: protocol.TextDocumentIdentifier{URI: incURI}, Position: protocol.Position{Line: 2, Character: 6}},
		Context:                    protocol.ReferenceContext{IncludeDeclaration: true},
	})
	// assets:cash occurs on line 3 of main.journal (0-based) and on line 2 of inc.journal
	var got []string
	okMain, okInc := false, false
	for _, l := range locs {
		got = append(got, fmt.Sprintf("%s:%d", filepath.Base(string(l.URI)), l.Range.Start.Line))
		if filepath.Base(string(l.URI)) == "main.journal" && l.Range.Start.Line == 3 {
			okMain = true
		}
		if filepath.Base(string(l.URI)) == "inc.journal" && l.Range.Start.Line == 2 {
			okInc = true
		}
	}
	if !okMain || !okInc || len(locs) != 2 {
		fmt.Printf("WITNESS-FAILS references to assets:cash asked from inc.journal (root main.journal includes it): got %v, the occurrences are main.journal:3 and inc.journal:2\n", got)
		return
	}
	fmt.Println("WITNESS-HOLDS")
}

// C08 parser.(*Parser).parseAccountDirective#ensures.account_range: the account of an account directive has a range with an end.
func TestVerifWitness_C08_account_directive_range(t *testing.T) {
	content := "account expenses:food\n\n2024-01-01 x\n    expenses:food  1 USD\n    assets:cash\n"
	j, _ := parser.Parse(content)
	for _, l := range findAccountReferences("expenses:food", nil, "/tmp/a.journal", j, true) {
		if l.Range.End.Line > 10 || l.Range.End.Character > 100 {
			fmt.Printf("WITNESS-FAILS 'account expenses:food': declaration reported with range %v\n", l.Range)
			return
		}
	}
	fmt.Println("WITNESS-HOLDS")
}

// C08 server.estimatePayeeRange#ensures.starts_at_description: the payee range covers the payee, whatever precedes it.
func TestVerifWitness_C08_payee_range_after_code(t *testing.T) {
	j, _ := parser.Parse("2024-01-01 (123) shop | note\n    expenses:food  1 USD\n    assets:cash\n")
	tx := &j.Transactions[0]
	r := estimatePayeeRange(tx, getPayeeOrDescription(tx))
	if r.Start.Column != 18 || r.End.Column != 22 {
		fmt.Printf("WITNESS-FAILS '2024-01-01 (123) shop | note': payee \"shop\" (columns 18..22) reported at %d..%d\n", r.Start.Column, r.End.Column)
		return
	}
	fmt.Println("WITNESS-HOLDS")
}

// C01 server.(*Server).DidChange#ensures.no_stale_templates: inline completion must not use templates of an older text.
func TestVerifWitness_C01_templates_after_edit(t *testing.T) {
	s := NewServer()
	uri := protocol.DocumentURI("file:///t.journal")
	s.DidOpen(context.Background(), &protocol.DidOpenTextDocumentParams{TextDocument: protocol.TextDocumentItem{URI: uri, Text: "2024-01-01 shop\n    expenses:food  1 USD\n    assets:cash\n"}})
	s.getPayeeTemplates(uri, "2024-01-01 shop\n    expenses:food  1 USD\n    assets:cash\n")
	s.DidChange(context.Background(), &protocol.DidChangeTextDocumentParams{
		TextDocument:   protocol.VersionedTextDocumentIdentifier{TextDocumentIdentifier: protocol.TextDocumentIdentifier{URI: uri}},
		ContentChanges: []protocol.TextDocumentContentChangeEvent{{Text: "2024-01-01 cafe\n    expenses:coffee  2 USD\n    assets:cash\n"}},
	})
	doc, _ := s.GetDocument(uri)
	tpl := s.getPayeeTemplates(uri, doc)
	if _, stale := tpl["shop"]; stale {
		fmt.Println("WITNESS-FAILS after replacing the text (payee shop -> cafe) the templates still list \"shop\"")
		return
	}
	fmt.Println("WITNESS-HOLDS")
}

// C15 server.(*Server).WorkspaceSymbol: fresh servers given the same open documents give identical answers.
func TestVerifWitness_C15_workspace_symbol_order(t *testing.T) {
	first := ""
	for k := 0; k < 40; k++ {
		s := NewServer()
		for i := 0; i < 8; i++ {
			uri := protocol.DocumentURI(fmt.Sprintf("file:///d%d.journal", i))
			s.DidOpen(context.Background(), &protocol.DidOpenTextDocumentParams{TextDocument: protocol.TextDocumentItem{URI: uri, Text: fmt.Sprintf("account a%d\n", i)}})
		}
		syms, _ := s.WorkspaceSymbol(context.Background(), &protocol.WorkspaceSymbolParams{Query: ""})
		got := ""
		for _, sy := range syms {
			got += sy.Name + " "
		}
		if k == 0 {
			first = got
		} else if got != first {
			fmt.Printf("WITNESS-FAILS 8 open documents: server 1 answered %q, server %d answered %q\n", first, k+1, got)
			return
		}
	}
	fmt.Println("WITNESS-HOLDS")
}

// C08 parser.(*Parser).parseCommodityDirective#ensures.commodity_range: the commodity of a commodity directive has a range with an end.
func TestVerifWitness_C08_commodity_directive_range(t *testing.T) {
	content := "commodity EUR\n\n2024-01-01 x\n    expenses:food  1 EUR\n    assets:cash\n"
	j, _ := parser.Parse(content)
	for _, l := range findCommodityReferences("EUR", nil, "/tmp/a.journal", j, true) {
		if l.Range.End.Line > 10 || l.Range.End.Character > 100 {
			fmt.Printf("WITNESS-FAILS 'commodity EUR': declaration reported with range %v\n", l.Range)
			return
		}
	}
	fmt.Println("WITNESS-HOLDS")
}

// C09 server.allJournalsWithPaths#ensures.current_file_searched: a request from a file outside the workspace tree still finds its own occurrences.
func TestVerifWitness_C09_standalone_file_in_workspace(t *testing.T) {
	dir := t.TempDir()
	root := filepath.Join(dir, "main.journal")
	other := filepath.Join(dir, "other.journal")
	os.WriteFile(root, []byte("2024-01-01 a\n    expenses:food  1 USD\n    assets:cash\n"), 0o644)
	otherText := "2024-01-02 b\n    expenses:food  2 USD\n    assets:cash\n"
	os.WriteFile(other, []byte(otherText), 0o644)
	wsJournal, _ := parser.Parse("2024-01-01 a\n    expenses:food  1 USD\n    assets:cash\n")
	cur, _ := parser.Parse(otherText)
	tree := &include.ResolvedJournal{Primary: wsJournal, PrimaryPath: root, Files: map[string]*ast.Journal{}}
	locs := findAccountReferences("expenses:food", tree, other, cur, true)
	own := 0
	for _, l := range locs {
		if strings.HasSuffix(string(l.URI), "other.journal") {
			own++
		}
	}
	if own == 0 {
		fmt.Printf("WITNESS-FAILS references for expenses:food requested from other.journal (not included by the workspace root): %d locations, none in other.journal itself\n", len(locs))
		return
	}
	fmt.Println("WITNESS-HOLDS")
}

// C09 server.findCommodityReferences#loop4.inv2.preserve: a commodity used in a cost or a balance assertion is an occurrence.
func TestVerifWitness_C09_commodity_in_cost_and_assertion(t *testing.T) {
	content := "2024-01-01 x\n    assets:broker  10 AAPL @ 150 USD\n    assets:cash  -1500 USD\n\n2024-01-02 y\n    assets:bank  = 100 USD\n    assets:cash\n"
	j, _ := parser.Parse(content)
	n := len(findCommodityReferences("USD", nil, "/tmp/a.journal", j, true))
	if n != 3 {
		fmt.Printf("WITNESS-FAILS USD occurs as a cost (line 2), an amount (line 3) and an assertion (line 6): %d references\n", n)
		return
	}
	fmt.Println("WITNESS-HOLDS")
}

// partialOverlap: two fold regions that are neither disjoint nor nested.
func partialOverlap(a, b protocol.FoldingRange) bool {
	if a.EndLine < b.StartLine || b.EndLine < a.StartLine {
		return false
	}
	aInB := b.StartLine <= a.StartLine && a.EndLine <= b.EndLine
	bInA := a.StartLine <= b.StartLine && b.EndLine <= a.EndLine
	return !aInB && !bInA
}

func foldWitness(content string) string {
	s := NewServer()
	uri := protocol.DocumentURI("file:///w.journal")
	s.documents.Store(uri, content)
	rs, _ := s.FoldingRanges(context.Background(), &protocol.FoldingRangeParams{TextDocumentPositionParams: protocol.TextDocumentPositionParams{TextDocument: protocol.TextDocumentIdentifier{URI: uri}}})
	for i := range rs {
		for k := i + 1; k < len(rs); k++ {
			if partialOverlap(rs[i], rs[k]) {
				return fmt.Sprintf("folds %d..%d and %d..%d partially overlap", rs[i].StartLine, rs[i].EndLine, rs[k].StartLine, rs[k].EndLine)
			}
		}
	}
	return ""
}

// C08 server.findTransactionFolds#loop1.inv3.preserve (fold_of_a_transaction): the fold of a transaction ends on its own
// last line, not on the line of the token that follows it.
func TestVerifWitness_C08_transaction_fold_end(t *testing.T) {
	content := "2024-01-01 a\n    assets:x  1 USD\n    assets:y\n2024-01-02 b\n    assets:x  1 USD\n    assets:y\n"
	if w := foldWitness(content); w != "" {
		fmt.Println("WITNESS-FAILS two adjacent transactions (lines 0..2 and 3..5):", w)
		return
	}
	fmt.Println("WITNESS-HOLDS")
}

// C08 (witness only: the comment-block folds scan raw lines and are not under contract): a comment block does not run from
// an entry's indented comment lines into the top-level comments that follow.
func TestVerifWitness_C08_comment_fold_crosses_entry_end(t *testing.T) {
	for _, content := range []string{
		"2024-01-01 a\n    assets:x  1 USD\n    assets:y\n    ; c1\n; c2\n; c3\n\n2024-01-02 b\n    assets:x  1 USD\n    assets:y\n",
		"account a\n    ; c1\n; c2\n; c3\n",
	} {
		if w := foldWitness(content); w != "" {
			fmt.Printf("WITNESS-FAILS %q: %s\n", content, w)
			return
		}
	}
	fmt.Println("WITNESS-HOLDS")
}

// C17 server.semanticTokenLength#ensures.delimited_extent: a code token covers its parentheses and a quoted commodity its
// quotes (the lexer value drops them).
func TestVerifWitness_C17_delimited_tokens_cover_delimiters(t *testing.T) {
	content := "2024-01-01 (123) shop\n    assets:a  1 \"AAPL X\"\n    assets:b\n"
	var code, com *semanticToken
	toks := tokenizeForSemantics(content)
	for i := range toks {
		if toks[i].tokenType == TokenTypeCode {
			code = &toks[i]
		}
		if toks[i].tokenType == TokenTypeCommodity {
			com = &toks[i]
		}
	}
	if code == nil || com == nil {
		fmt.Println("WITNESS-FAILS no code / commodity token emitted")
		return
	}
	if code.col != 11 || code.length != 5 || com.col != 16 || com.length != 8 {
		fmt.Printf("WITNESS-FAILS \"(123)\" is columns 11..16 and \"\\\"AAPL X\\\"\" columns 16..24 of its line: code %d+%d, commodity %d+%d\n", code.col, code.length, com.col, com.length)
		return
	}
	fmt.Println("WITNESS-HOLDS")
}

// C08 server.extractSymbols#call[server.astRangeToProtocol].requires.1: a commodity directive without a symbol
// ("commodity 1,000.00") has no symbol range; listing it produced a symbol with an empty name at 4294967295:4294967295.
func TestVerifWitness_C08_symbol_of_symbolless_commodity(t *testing.T) {
	j, _ := parser.Parse("commodity 1,000.00\n2024-01-01 x\n    assets:a  1\n    assets:b\n")
	for _, s := range extractSymbols(j, "file:///w.journal", "") {
		if s.Name == "" || s.Location.Range.Start.Line > 3 || s.Location.Range.End.Line > 3 {
			fmt.Printf("WITNESS-FAILS symbol %q at %v in a document of 4 lines\n", s.Name, s.Location.Range)
			return
		}
	}
	fmt.Println("WITNESS-HOLDS")
}

// C09 server.findDefinitionTarget#ensures.nothing_under_cursor_means_no_occurrence: references / rename / definition asked
// with the cursor on a commodity in a cost or a balance assertion, or on the name in an account / commodity directive,
// must find the symbol (they answered nothing: only posting accounts, amount commodities and payees were looked at).
func TestVerifWitness_C09_cursor_on_cost_assertion_and_declaration(t *testing.T) {
	content := "account assets:broker\ncommodity USD\n2024-01-01 x\n    assets:broker  10 AAPL @ 150 USD\n    assets:cash  -1500 USD = 0 USD\n"
	s := NewServer()
	uri := protocol.DocumentURI("file:///tmp/w-target.journal")
	s.documents.Store(uri, content)
	for _, c := range []struct {
		what string
		pos  protocol.Position
	}{{"USD in the cost", protocol.Position{Line: 3, Character: 34}}, {"USD in the assertion", protocol.Position{Line: 4, Character: 32}}, {"declared account", protocol.Position{Line: 0, Character: 10}}, {"declared commodity", protocol.Position{Line: 1, Character: 11}}} {
		locs, _ := s.References(context.Background(), &protocol.ReferenceParams{TextDocumentPositionParams: protocol.TextDocumentPositionParams{TextDocument: protocol.TextDocumentIdentifier{URI: uri}, Position: c.pos}, Context: protocol.ReferenceContext{IncludeDeclaration: true}})
		if len(locs) == 0 {
			fmt.Printf("WITNESS-FAILS references asked on the %s (%d:%d): no location\n", c.what, c.pos.Line, c.pos.Character)
			return
		}
	}
	fmt.Println("WITNESS-HOLDS")
}

// C17 server.extractTagTokensFromComment (witness for the UTF-16 columns; the clauses prove order and containment only):
// the tag tokens of a comment are positioned in UTF-16 units, not bytes.
func TestVerifWitness_C17_tag_tokens_after_non_ascii(t *testing.T) {
	content := "2024-01-01 x  ; заметка 😀, project:альфа, k:v\n    assets:a  1\n    assets:b\n"
	line := strings.Split(content, "\n")[0]
	u16 := func(s string) uint32 {
		n := uint32(0)
		for _, r := range s {
			if r >= 0x10000 {
				n += 2
			} else {
				n++
			}
		}
		return n
	}
	want := map[string][2]uint32{}
	for _, lex := range []string{"project:", "альфа", "k:", "v"} {
		i := strings.LastIndex(line, lex)
		want[lex] = [2]uint32{u16(line[:i]), u16(lex)}
	}
	got := map[[2]uint32]bool{}
	for _, tk := range tokenizeForSemantics(content) {
		if tk.line == 0 && (tk.tokenType == TokenTypeTag || tk.tokenType == TokenTypeTagValue) {
			got[[2]uint32{tk.col, tk.length}] = true
		}
	}
	for lex, w := range want {
		if !got[w] {
			fmt.Printf("WITNESS-FAILS no tag token at UTF-16 column %d length %d for %q (tokens: %v)\n", w[0], w[1], lex, got)
			return
		}
	}
	fmt.Println("WITNESS-HOLDS")
}

// C17 server.extractTagTokensFromComment#witness: the tag token sits on the tag, not on an earlier "name:" inside a part
// that is not a tag.
func TestVerifWitness_C17_tag_token_in_its_own_part(t *testing.T) {
	content := "2024-01-01 x  ; x a:1, a:2\n    assets:a  1\n    assets:b\n"
	var cols []uint32
	for _, tk := range tokenizeForSemantics(content) {
		if tk.line == 0 && tk.tokenType == TokenTypeTag {
			cols = append(cols, tk.col)
		}
	}
	want := uint32(strings.LastIndex(content, "a:2"))
	if len(cols) != 1 || cols[0] != want {
		fmt.Printf("WITNESS-FAILS %q: tag tokens at columns %v, the only tag \"a:\" is at column %d\n", strings.Split(content, "\n")[0], cols, want)
		return
	}
	fmt.Println("WITNESS-HOLDS")
}

// C17 server.tokenizeForSemantics#witness: a payee token lies on a header line. A header without description left the
// "next text is the payee" flag set, and the first text token further down (a commodity written as a word, the text of a
// directive) was typed payee.
func TestVerifWitness_C17_payee_only_on_header_lines(t *testing.T) {
	for _, content := range []string{"2024-01-01\n    assets:cash  5 hours\n    expenses:x\n", "2024-01-01 * (1)\n    assets:cash  5 USD\n\naccount foo bar\n"} {
		for _, tk := range tokenizeForSemantics(content) {
			if tk.tokenType == TokenTypePayee && tk.line != 0 {
				fmt.Printf("WITNESS-FAILS %q: a payee token on line %d (column %d, length %d), which is not a transaction header\n", content, tk.line, tk.col, tk.length)
				return
			}
		}
	}
	fmt.Println("WITNESS-HOLDS")
}
