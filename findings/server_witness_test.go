package server

import (
	"context"
	"encoding/json"
	"fmt"
	"testing"

	"go.lsp.dev/protocol"
)

// C01 server.lemma.wire_step: a ranged insertion at 0:0 (empty range at the start of a non-empty document) must insert,
// not replace the whole text. After decoding, the change is indistinguishable from a range-less one.
func TestVerifWitness_C01_insert_at_0_0(t *testing.T) {
	s := NewServer()
	uri := protocol.DocumentURI("file:///w.journal")
	s.DidOpen(context.Background(), &protocol.DidOpenTextDocumentParams{TextDocument: protocol.TextDocumentItem{URI: uri, Text: "old\n"}})
	var params protocol.DidChangeTextDocumentParams
	raw := `{"textDocument":{"uri":"file:///w.journal","version":2},"contentChanges":[{"range":{"start":{"line":0,"character":0},"end":{"line":0,"character":0}},"text":"X"}]}`
	if err := json.Unmarshal([]byte(raw), &params); err != nil {
		fmt.Println("WITNESS-HOLDS (decode error)", err)
		return
	}
	s.DidChange(context.Background(), &params)
	got, _ := s.GetDocument(uri)
	if got != "Xold\n" {
		fmt.Printf("WITNESS-FAILS insertion of \"X\" at 0:0 into \"old\\n\": server holds %q, a client holds %q\n", got, "Xold\n")
		return
	}
	fmt.Println("WITNESS-HOLDS")
}

// C08/C16 server.calculateTextEditRange#ensures.start_le_cursor: the edit of a completion item must not start after the cursor.
func TestVerifWitness_C16_edit_start_past_cursor(t *testing.T) {
	r := calculateTextEditRange("account foo", protocol.Position{Line: 0, Character: 3}, ContextAccount)
	if r != nil && r.Start.Character > r.End.Character {
		fmt.Printf("WITNESS-FAILS line \"account foo\", cursor at 0:3, account context: edit range %d..%d starts after the cursor\n", r.Start.Character, r.End.Character)
		return
	}
	fmt.Println("WITNESS-HOLDS")
}
