package parser

// Witnesses of recorded findings in internal/parser: each test replays the recorded failing input on the real
// code and prints WITNESS-FAILS when the defect manifests, WITNESS-HOLDS otherwise. Injected with go test -overlay.

import (
	"fmt"
	"testing"
)

// C08 parser.(*Lexer).advance#ensures.col16: a rune >= U+10000 is two UTF-16 code units, the column must advance by 2.
func TestVerifWitness_C08_advance_col16(t *testing.T) {
	l := &Lexer{input: "\U0001F600x", pos: 0, line: 1, column: 1}
	l.advance()
	if l.column != 3 {
		fmt.Printf("WITNESS-FAILS input=%q pos=0: column after advance = %d, a client counts 3 (1 + 2 UTF-16 units)\n", l.input, l.column)
		return
	}
	fmt.Println("WITNESS-HOLDS")
}

// C08 parser.(*Lexer).scanAccount#ensures.lexeme_exact: the token extent must be exactly the account text.
func TestVerifWitness_C08_scanAccount_lexeme_exact(t *testing.T) {
	l := NewLexer("a:b ;x")
	l.atStart = false
	tok := l.scanAccount()
	if tok.End.Offset != tok.Pos.Offset+len(tok.Value) {
		fmt.Printf("WITNESS-FAILS input=%q: account %q has extent %d..%d (covers %q)\n", l.input, tok.Value, tok.Pos.Offset, tok.End.Offset, l.input[tok.Pos.Offset:tok.End.Offset])
		return
	}
	fmt.Println("WITNESS-HOLDS")
}

// C17 parser.(*Lexer).scanInLine#ensures.pos_at_lexeme: a one-character operator token is positioned on the operator.
func TestVerifWitness_C17_scanInLine_pos_at_lexeme(t *testing.T) {
	l := &Lexer{input: "aa|b", pos: 2, line: 1, column: 3}
	tok := l.scanInLine()
	if tok.Type == TokenPipe && tok.Pos.Offset != 2 {
		fmt.Printf("WITNESS-FAILS input=%q pos=2: Pipe token positioned at offset %d column %d, the '|' is at offset 2 column 3\n", l.input, tok.Pos.Offset, tok.Pos.Column)
		return
	}
	fmt.Println("WITNESS-HOLDS")
}

// C08 parser.parseTags#loop1.inv2.preserve (clause tag_position): the columns of a tag's range count UTF-16 units of the
// comment text before it, not bytes.
func TestVerifWitness_C08_parseTags_col16(t *testing.T) {
	text := " a:é, tag:v"
	tags := parseTags(text, Position{Line: 1, Column: 15, Offset: 14})
	if len(tags) != 2 {
		fmt.Printf("WITNESS-HOLDS (unexpected tag count %d)\n", len(tags))
		return
	}
	// "tag" starts after " a:é, " = 6 UTF-16 units (7 bytes): column 15 + 1 + 6
	if tags[1].Range.Start.Column != 22 {
		fmt.Printf("WITNESS-FAILS comment text %q at column 15: tag %q starts at column %d, a client counts 22 (the 'é' before it is one UTF-16 unit, two bytes)\n", text, tags[1].Name, tags[1].Range.Start.Column)
		return
	}
	fmt.Println("WITNESS-HOLDS")
}

// C02 bounded.number_notation: the exponent is not part of the digit groups.
func TestVerifWitness_C02_exponent_is_not_a_group(t *testing.T) {
	if got := normalizeNumber("1.5E3"); got != "1.5E3" {
		fmt.Printf("WITNESS-FAILS normalizeNumber(\"1.5E3\") = %q (the point read as a group mark: 15000 instead of 1500)\n", got)
		return
	}
	fmt.Println("WITNESS-HOLDS")
}

// C08 parser.(*Parser).parseAmount#witness: a commodity written to the right of the number and scanned as text
// ("10 hours  ; c", "5 руб  ") has a range that ends with its own text, not after the blanks that follow it.
func TestVerifWitness_C08_text_commodity_range_end(t *testing.T) {
	for _, c := range []struct {
		src  string
		sym  string
		cols [2]int
	}{{"2024-01-01 x\n    assets:a  10 hours  ; c\n    assets:b\n", "hours", [2]int{18, 23}}, {"2024-01-01 x\n    assets:a  5 руб  \n    assets:b\n", "руб", [2]int{17, 20}}} {
		j, _ := Parse(c.src)
		a := j.Transactions[0].Postings[0].Amount
		if a == nil || a.Commodity.Symbol != c.sym || a.Commodity.Range.Start.Column != c.cols[0] || a.Commodity.Range.End.Column != c.cols[1] {
			fmt.Printf("WITNESS-FAILS commodity %q of %q: columns %d..%d expected, range %v\n", c.sym, c.src, c.cols[0], c.cols[1], a.Commodity.Range)
			return
		}
	}
	fmt.Println("WITNESS-HOLDS")
}

// C08 parser.parseTags#ensures.tag_inside_one_part: a tag's range lies in the comma-separated part the tag was read from;
// before the repair the tag was searched for from the end of the previous tag, so a part that is not a tag but contains
// "name:" ("x a:1") captured the range of a later tag of that name.
func TestVerifWitness_C08_tag_range_in_its_own_part(t *testing.T) {
	for _, text := range []string{" x a:1, a:2", " (ba:), a:2"} {
		tags := parseTags(text, Position{Line: 1, Column: 15, Offset: 14})
		if len(tags) != 1 {
			fmt.Printf("WITNESS-HOLDS (unexpected tag count %d)\n", len(tags))
			return
		}
		got := text[tags[0].Range.Start.Offset-15 : tags[0].Range.End.Offset-15]
		if got != "a:2" {
			fmt.Printf("WITNESS-FAILS comment text %q: the range of tag %s=%s covers %q, the tag is written \"a:2\"\n", text, tags[0].Name, tags[0].Value, got)
			return
		}
	}
	fmt.Println("WITNESS-HOLDS")
}
