#!/bin/sh
# Builds the verification tool offline from the sources in /verif/govc. Run once after a fresh restore.
set -e
cd "$(dirname "$0")"
export GOFLAGS=-mod=mod GOPROXY=off GOTOOLCHAIN=local GOSUMDB=off
mkdir -p bin evidence replays
(cd govc && go1.26.8 build -o ../bin/govc .)
# solver smoke test: each back end must answer a trivial query
printf '(set-logic ALL)\n(declare-const x Int)\n(assert (> x 0))\n(assert (< x 0))\n(check-sat)\n' > bin/.smoke.smt2
for s in "z3-new" "/usr/bin/z3" "cvc5 --lang=smt2"; do
  out=$($s bin/.smoke.smt2 2>&1 | head -1)
  [ "$out" = "unsat" ] || { echo "setup: solver '$s' does not answer (got: $out)" >&2; exit 1; }
done
rm -f bin/.smoke.smt2
echo "setup: ok"
